"""C15 — component/transform filters preserve rendering; anchors follow components.

Deductive part
  * affine algebra over the REALS (lemmas): the 6-tuple formulas of fontTools' Transform (trusted model, contracts/c02.py)
    mean what the contracts need — composition, translate/scale/skew, inverse, and the compensation M∘t∘M⁻¹ that keeps a
    composite rendering M(before) when its base was already transformed; anchors (points) vs advances (vectors);
  * contracts on the real functions that do the arithmetic: TransformPointPen.__init__/addComponent,
    TransformationsFilter.set_context/filter, propagateAnchors._get_anchor_data/_adjust_anchors, _isTransformed and
    DecomposeTransformedComponentsFilter.filter; plus (registered in c01.py / c02.py for C15 as well) decomposeCompositeGlyph,
    DecomposeComponentsFilter.filter, SkipExportGlyphsFilter.filter, _flattenComponent, lemma C02.flatten_render.
Bounded part (vcheck/hooks/c15.py): independent recursive renderer on random component graphs, both UFO libraries, for every
filter incl. _propagate_glyph_anchors (out of reach of the engine: set comprehension over a list, see notes/C01.requests.md).
"""
import z3

from pyvc import ty as T
from pyvc.api import BOOL, CLASSES, CONTRACTS, INT, REAL, STR, Const, Dict, List, Loop, Opt, Ref, Runtime, Set, Tuple, cls, contract, lemma, specfn, trusted
from pyvc.core import PYOBJ, Unsupported, Val, fresh, fresh_name, lift
from pyvc.symex import FuncRef

from . import c01, c02, rtlib  # noqa: F401
from .c02 import _T6, _ap, _eq6, _six, composed6, compose_terms, dot2, mk_transform, new_value_object  # noqa: F401

# =====================================================================================================
# Lemmas: affine algebra (pure SMT over reals)

_M = ["mxx", "mxy", "myx", "myy", "mdx", "mdy"]
_Tt = ["txx", "txy", "tyx", "tyy", "tdx", "tdy"]
_RV = {v: REAL for v in _M + _Tt + ["x", "y", "a", "b", "sx", "sy", "k"]}


def _mod(l):
    l.module = __name__
    return l


# translate / scale / skew as fontTools defines them (self.transform((1,0,0,1,a,b)) etc.), expanded by composed6
_TRANS = composed6(_M, ["1", "0", "0", "1", "a", "b"])
_SCALE = composed6(_M, ["sx", "0", "0", "sy", "0", "0"])
_SKEW = composed6(_M, ["1", "0", "k", "1", "0", "0"])  # skew(x) with k = tan(x)
_mod(lemma(
    "C15.translate_scale_skew",
    props=["C15"],
    vars=_RV,
    hyps=[],
    concl={
        # M.translate(a, b) moves the point first, then applies M  (the offset is applied BEFORE scale/slant)
        "translate-x": f"{_ap(_TRANS, 'x', 'y')[0]} == {_ap(_M, '(x + a)', '(y + b)')[0]}",
        "translate-y": f"{_ap(_TRANS, 'x', 'y')[1]} == {_ap(_M, '(x + a)', '(y + b)')[1]}",
        "scale-x": f"{_ap(_SCALE, 'x', 'y')[0]} == {_ap(_M, '(sx * x)', '(sy * y)')[0]}",
        "scale-y": f"{_ap(_SCALE, 'x', 'y')[1]} == {_ap(_M, '(sx * x)', '(sy * y)')[1]}",
        "skew-x": f"{_ap(_SKEW, 'x', 'y')[0]} == {_ap(_M, '(x + k * y)', 'y')[0]}",
        "skew-y": f"{_ap(_SKEW, 'x', 'y')[1]} == {_ap(_M, '(x + k * y)', 'y')[1]}",
    },
    canaries={"translate-after": f"{_ap(_TRANS, 'x', 'y')[0]} == {_ap(_M, 'x', 'y')[0]} + a"},
))

# inverse() of fontTools, as 6 terms over the entries (det != 0)
_DET = "(mxx * myy - myx * mxy)"
_INV4 = [f"(myy / {_DET})", f"(-mxy / {_DET})", f"(-myx / {_DET})", f"(mxx / {_DET})"]
_INV = _INV4 + [f"(-{_INV4[0]} * mdx - {_INV4[2]} * mdy)", f"(-{_INV4[1]} * mdx - {_INV4[3]} * mdy)"]
_mi = _ap(_INV, "x", "y")
_mod(lemma(
    "C15.inverse",
    props=["C15"],
    vars=_RV,
    hyps=[f"{_DET} != 0"],
    concl={
        "right-inverse-x": f"{_ap(_M, _mi[0], _mi[1])[0]} == x",
        "right-inverse-y": f"{_ap(_M, _mi[0], _mi[1])[1]} == y",
        "left-inverse-x": f"{_ap(_INV, *_ap(_M, 'x', 'y'))[0]} == x",
        "left-inverse-y": f"{_ap(_INV, *_ap(_M, 'x', 'y'))[1]} == y",
    },
    canaries={"transpose-is-inverse": f"{_ap([_M[0], _M[2], _M[1], _M[3], _M[4], _M[5]], *_ap(_M, 'x', 'y'))[0]} == x"},
))

# a component (base, t) of a glyph whose BASE was already transformed by M must become M∘t∘M⁻¹:
# then the composite renders M(before) — for every point q of the base's ORIGINAL outline
_I = ["ixx", "ixy", "iyx", "iyy", "idx", "idy"]
_IS_INV = [f"{a} == {b}" for a, b in zip(_ap(_M, *_ap(_I, "x", "y")), ("x", "y"))]  # I is a right inverse of M at (x, y) ...
_comp = composed6(_M, composed6(_Tt, _I))  # M ∘ (t ∘ I)   [code: Transform(*t).transform(inverted), then M.transform(.)]
_wrong = composed6(_M, composed6(_I, _Tt))  # M ∘ (I ∘ t)   [inverse applied on the wrong side]
_mq = _ap(_M, "x", "y")
_mod(lemma(
    "C15.compensation",
    props=["C15"],
    vars={**_RV, **{v: REAL for v in _I}},
    # I = M⁻¹ as a left inverse: I(M(p)) == p for the point p = (x, y) of the untransformed base
    hyps=[f"{_ap(_I, *_mq)[0]} == x", f"{_ap(_I, *_mq)[1]} == y"],
    concl={
        # new component transform applied to the ALREADY TRANSFORMED base point M(p)  ==  M applied to the old placement t(p)
        "composite-renders-M-of-before-x": f"{_ap(_comp, *_mq)[0]} == {_ap(_M, *_ap(_Tt, 'x', 'y'))[0]}",
        "composite-renders-M-of-before-y": f"{_ap(_comp, *_mq)[1]} == {_ap(_M, *_ap(_Tt, 'x', 'y'))[1]}",
    },
    canaries={"inverse-on-the-wrong-side": f"{_ap(_wrong, *_mq)[0]} == {_ap(_M, *_ap(_Tt, 'x', 'y'))[0]}",
              "no-compensation": f"{_ap(composed6(_M, _Tt), *_mq)[0]} == {_ap(_M, *_ap(_Tt, 'x', 'y'))[0]}"},
))

# points vs vectors: an advance (width, height) is a DIFFERENCE of points, so it maps by the linear part only
_mod(lemma(
    "C15.point_vs_vector",
    props=["C15"],
    vars=_RV,
    hyps=[],
    concl={
        "advance-is-a-vector-x": f"{_ap(_M, '(x + a)', '(y + b)')[0]} - {_ap(_M, 'x', 'y')[0]} == mxx * a + myx * b",
        "advance-is-a-vector-y": f"{_ap(_M, '(x + a)', '(y + b)')[1]} - {_ap(_M, 'x', 'y')[1]} == mxy * a + myy * b",
    },
    canaries={"advance-as-point": f"{_ap(_M, '(x + a)', '(y + b)')[0]} - {_ap(_M, 'x', 'y')[0]} == {_ap(_M, 'a', 'b')[0]}"},
))

# =====================================================================================================
# transformations.TransformPointPen  (ufo2ft's subclass of fontTools' TransformPointPen)
#
# TRUSTED (fontTools 4.55 pens/transformPen.py): TransformPointPen.__init__(out, t) stores t as `_transformation`
# (a Transform; a 6-tuple is converted); addComponent(base, t, **kw) forwards (base, self._transformation.transform(t)) to the
# out pen; addPoint forwards transformPoint(pt).   inverse(): the 6 terms of lemma C15.inverse (Identity is returned as is).


def _t_inverse(ex, st, self, args, kwargs, node):
    xx, xy, yx, yy, dx, dy = [lift(v, REAL) for v in _six(ex, st, self)]
    det = xx * yy - yx * xy
    # fontTools returns self for Identity, divides by det otherwise (ZeroDivisionError for a singular matrix)
    ident = z3.And(xx == 1, xy == 0, yx == 0, yy == 1, dx == 0, dy == 0)
    ex.safety(st, z3.Or(ident, det != 0), "ZeroDivisionError", node)
    ixx, ixy, iyx, iyy = yy / det, -xy / det, -yx / det, xx / det
    return mk_transform(ex, st, [Val(REAL, t) for t in (ixx, ixy, iyx, iyy, -ixx * dx - iyx * dy, -ixy * dx - iyy * dy)])


CLASSES["Transform"].methods["inverse"] = _t_inverse

cls("C15_OutPen", fields={"comp_base": List(STR), "comp_t": List(Ref("Transform"))}, notes="receiving point pen: log of addComponent(base, transformation) calls (ghost)")
cls("C15_TPen", fields={"_outPen": Ref("C15_OutPen"), "_transformation": Ref("Transform"), "_inverted": Ref("Transform"), "modified": Opt(Set(STR))},
    repo="ufo2ft.filters.transformations:TransformPointPen", notes="ufo2ft TransformPointPen instance")


def _base_tpen_init(ex, st, self, args, kwargs, node):
    me = st.env["self"]
    ex.write_field(st, me, "_outPen", args[0], node)
    t = args[1]
    if not isinstance(t.ty, T.Ref):
        t = mk_transform(ex, st, _six(ex, st, t, node))
    ex.write_field(st, me, "_transformation", t, node)
    return Val.const(None)


def _base_tpen_addComponent(ex, st, self, args, kwargs, node):
    me = st.env["self"]
    base, t = args[0], args[1]
    m = [lift(v, REAL) for v in _six(ex, st, ex.read_field(st, me, "_transformation"))]
    tt = [lift(v, REAL) for v in _six(ex, st, t, node)]
    res = mk_transform(ex, st, [Val(REAL, x) for x in compose_terms(m, tt)])
    out = ex.read_field(st, me, "_outPen")
    b, ts = ex.read_field(st, out, "comp_base"), ex.read_field(st, out, "comp_t")
    ex.write_field(st, out, "comp_base", Val(b.ty, c01._snoc_if(st, b, lift(base, STR), z3.BoolVal(True))), node)
    ex.write_field(st, out, "comp_t", Val(ts.ty, c01._snoc_if(st, ts, lift(res), z3.BoolVal(True))), node)
    return Val.const(None)


cls("C15_SuperTPen", methods={"__init__": _base_tpen_init, "addComponent": _base_tpen_addComponent},
    notes="super() inside ufo2ft's TransformPointPen: fontTools' TransformPointPen.__init__ / addComponent (TRUSTED, see above)")


@trusted("c15.super_tpen", "fontTools.pens.transformPen.TransformPointPen.__init__/addComponent: stores the Transform; forwards (base, self._transformation.transform(t)) to the out pen")
def _super_tpen(ex, st, args, kwargs, node):
    return ex.new_object(st, "C15_SuperTPen")


_SUPER = {"super": Val.obj(FuncRef(None, "c15.super_tpen"))}
_SYM_T = tuple(Val(REAL, z3.Real("t_" + k)) for k in _T6)  # a symbolic 6-tuple kept at python level (so that Transform(*t) can unpack it)
_MF = [f"self._transformation.{k}" for k in _T6]
_IF = [f"self._inverted.{k}" for k in _T6]
_TF = [f"transformation[{i}]" for i in range(6)]
_LAST = "self._outPen.comp_t[len(self._outPen.comp_t) - 1]"
_TPEN_INIT_FRAME = ["self._outPen", "self._transformation", "self._inverted", "self.modified"]  # the constructor writes the NEW pen only

contract(
    "ufo2ft.filters.transformations:TransformPointPen.__init__",
    props=["C15"],
    params={"self": Ref("C15_TPen"), "outPointPen": Ref("C15_OutPen"), "transformation": Ref("Transform"), "modified": Opt(Set(STR))},
    globals=_SUPER,
    requires=["transformation.xx * transformation.yy - transformation.yx * transformation.xy != 0"],  # set_context only builds invertible matrices (scale != 0): see its contract
    modifies=_TPEN_INIT_FRAME,
    ensures={
        "matrix": "self._transformation == transformation and self._outPen == outPointPen",
        # _inverted is the inverse matrix: exactly the six terms lemma C15.inverse is about
        "inverse": _eq6("self._inverted", [e.replace("m", "transformation.", 1) if False else e for e in
                                          [f"(transformation.yy / (transformation.xx * transformation.yy - transformation.yx * transformation.xy))",
                                           f"(-transformation.xy / (transformation.xx * transformation.yy - transformation.yx * transformation.xy))",
                                           f"(-transformation.yx / (transformation.xx * transformation.yy - transformation.yx * transformation.xy))",
                                           f"(transformation.xx / (transformation.xx * transformation.yy - transformation.yx * transformation.xy))",
                                           "(-self._inverted.xx * transformation.dx - self._inverted.yx * transformation.dy)",
                                           "(-self._inverted.xy * transformation.dx - self._inverted.yy * transformation.dy)"]]),
        "modified-set": "self.modified is not None and implies(modified is not None, self.modified == modified)",
    },
    canaries={"inverse-is-self": "self._inverted.xx == transformation.xx"},
)

# the same constructor as a call-site summary for TransformationsFilter.filter: everything EXCEPT the six inverse terms (the filter needs
# which matrix / pen / set the new pen carries; the divisions of the inverse only slow its obligations down).  Proved from the same body.
contract(
    "ufo2ft.filters.transformations:TransformPointPen.__init__",
    name="stored",
    props=["C15"],
    params={"self": Ref("C15_TPen"), "outPointPen": Ref("C15_OutPen"), "transformation": Ref("Transform"), "modified": Opt(Set(STR))},
    globals=_SUPER,
    requires=["transformation.xx * transformation.yy - transformation.yx * transformation.xy != 0"],
    modifies=_TPEN_INIT_FRAME,
    ensures={
        "matrix": "self._transformation == transformation and self._outPen == outPointPen",
        "modified-set": "self.modified is not None and implies(modified is not None, self.modified == modified)",
    },
    canaries={"drops-modified": "self.modified != modified"},
)

contract(
    "ufo2ft.filters.transformations:TransformPointPen.addComponent",
    props=["C15"],
    params={"self": Ref("C15_TPen"), "baseGlyph": STR, "transformation": Const(_SYM_T)},
    globals={**_SUPER, "kwargs": Val(PYOBJ, None, {}, True)},
    requires=["self.modified is not None"],  # established by __init__ (modified-set)
    modifies=["C15_OutPen.comp_base", "C15_OutPen.comp_t"],
    ensures={
        "one-component-forwarded": "len(self._outPen.comp_t) == len(old(self._outPen.comp_t)) + 1 and len(self._outPen.comp_base) == len(old(self._outPen.comp_base)) + 1"
        " and self._outPen.comp_base[len(self._outPen.comp_base) - 1] == baseGlyph",
        # base not transformed by this filter run: the reference simply gets M∘t
        # (one clause per matrix entry: each obligation is a single polynomial identity)
        **{f"plain-{k}": f"implies(baseGlyph not in self.modified, {_LAST}.{k} == {e})" for k, e in zip(_T6, composed6(_MF, _TF))},
        # base ALREADY transformed by M: the reference gets M∘(t∘M⁻¹)  — with lemma C15.compensation the composite renders M(before)
        **{f"compensated-{k}": f"implies(baseGlyph in self.modified, {_LAST}.{k} == {e})" for k, e in zip(_T6, composed6(_MF, composed6(_TF, _IF)))},
    },
    canaries={"never-compensates": _eq6(_LAST, composed6(_MF, _TF))},
)

# =====================================================================================================
# TransformationsFilter.set_context: the matrix is the documented product
#   offset ∘ [ up(origin) ∘ scale ∘ slant ∘ down(origin) ]      (p is first moved down by the origin height, slanted, scaled, ...)
import math  # noqa: E402


# (contracts/c16.py registers equivalent models under the same names; whichever is loaded last is used by code AND spec alike)
@trusted("math.radians", "math.radians(a): a function of a (uninterpreted)")
def _radians(ex, st, args, kwargs, node):
    return Val(REAL, z3.Function("c15_radians", z3.RealSort(), z3.RealSort())(lift(args[0], REAL)))


@trusted("math.tan", "math.tan(a): a function of a (uninterpreted)")
def _tan(ex, st, args, kwargs, node):
    return Val(REAL, z3.Function("c15_tan", z3.RealSort(), z3.RealSort())(lift(args[0], REAL)))


def _t_skew(ex, st, self, args, kwargs, node):
    """Transform.skew(x=0, y=0) = self.transform((1, tan(y), tan(x), 1, 0, 0)); ufo2ft only passes x"""
    if len(args) != 1 or kwargs:
        raise Unsupported("skew(x, y) with a y angle", node)
    from pyvc.api import TRUSTED

    # whichever model of math.tan is registered (contracts/c16.py registers an equivalent one): the code and the spec must share it
    k = lift(TRUSTED["math.tan"].model(ex, st, [args[0]], {}, node), REAL)
    me = [lift(v, REAL) for v in _six(ex, st, self)]
    one, zero = z3.RealVal(1), z3.RealVal(0)
    return mk_transform(ex, st, [Val(REAL, t) for t in compose_terms(me, [one, zero, k, one, zero, zero])])


CLASSES["Transform"].methods["skew"] = _t_skew


@specfn(REAL, angle=REAL)
def slant_k(angle):
    """horizontal shear factor of a slant by `angle` degrees"""
    return math.tan(math.radians(angle))


_ANCHOR_NAME = z3.Function("c15_anchor_name", T.RefSort, z3.StringSort())
cls("C15_Anchor", fields={"x": REAL, "y": REAL}, derived={"name": lambda ex, st, self: Val(STR, _ANCHOR_NAME(lift(self)))}, views={"name": lambda o: o.name},
    notes="anchor object: position (x, y) and name.  The name is modelled as a FUNCTION of the object (immutable): none of the functions under "
          "contract assigns an anchor's name (hook obligation C15.frame.anchor-names); a new anchor gets its name when it is created")
cls("C15_Glyph", fields={"name": STR, "width": REAL, "height": REAL, "anchors": List(Ref("C15_Anchor")), "components": List(Ref("C15_AComponent")), "ncontours": INT},
    length=lambda ex, st, v: ex.read_field(st, v, "ncontours"), notes="glyph: name, advance, anchors, components, len() = number of contours")
cls("C15_GlyphSet", fields={"glyphs": Dict(STR, Ref("C15_Glyph"))},
    getitem=lambda ex, st, self, idx, node: ex.getitem(ex.read_field(st, self, "glyphs"), idx, st, node),
    contains=lambda ex, st, self, x: z3.Select(ex.read_field(st, self, "glyphs").ty.sort().dom(ex.read_field(st, self, "glyphs").term), lift(x, STR)),
    # `names`: the key SET (quantifying over it, unlike iterating the dict, brings no key-order facts into the obligation)
    derived={"names": lambda ex, st, self: Val(Set(STR), ex.read_field(st, self, "glyphs").ty.sort().dom(ex.read_field(st, self, "glyphs").term))},
    views={"glyphs": lambda o: dict(o.items()), "names": lambda o: set(o.keys())}, notes="glyph set: name -> glyph")
from pyvc.api import Enum  # noqa: E402
from ufo2ft.filters.transformations import TransformationsFilter as _TF  # noqa: E402

from .c01 import otr  # noqa: E402,F401  (otRound as a spec function)

_ORIGIN = Enum("ufo2ft.filters.transformations:TransformationsFilter.Origin")
Origin = _TF.Origin
cls("C15_TOptions", fields={"OffsetX": REAL, "OffsetY": REAL, "ScaleX": REAL, "ScaleY": REAL, "Slant": REAL, "Origin": _ORIGIN},
    notes="TransformationsFilter.options (Origin: a member of TransformationsFilter.Origin — `start()` converts the number)")
cls("C15_TFilter", fields={"options": Ref("C15_TOptions"), "context": Ref("C02_Ctx")}, repo="ufo2ft.filters.transformations:TransformationsFilter",
    derived={"Origin": lambda ex, st, self: Val.obj(_TF.Origin)},  # the nested enum class, reached as `self.Origin` in the code
    notes="TransformationsFilter instance")
CLASSES["C02_Ctx"].fields.update({"matrix": Ref("Transform"), "modified": Set(STR), "glyphSet": Ref("C15_GlyphSet")})


@specfn(REAL, opaque=True, info=Ref("C02_Info"))
def cap_height_of(info):
    """getAttrWithFallback(info, 'capHeight') — uninterpreted in the logic (the function is verified under C16)"""
    from ufo2ft.fontInfoData import getAttrWithFallback

    return getAttrWithFallback(info, "capHeight")


@specfn(REAL, opaque=True, info=Ref("C02_Info"))
def x_height_of(info):
    """getAttrWithFallback(info, 'xHeight') — uninterpreted in the logic (the function is verified under C16)"""
    from ufo2ft.fontInfoData import getAttrWithFallback

    return getAttrWithFallback(info, "xHeight")


@specfn(REAL, info=Ref("C02_Info"), origin=_ORIGIN)
def origin_height_spec(info, origin):
    """the height about which scaling / slanting happens: 0, capHeight, xHeight, or their halves rounded half-up (the SPEC of get_origin_height)"""
    if origin == Origin.BASELINE:
        return 0
    if origin == Origin.CAP_HEIGHT:
        return cap_height_of(info)
    if origin == Origin.HALF_CAP_HEIGHT:
        return otr(cap_height_of(info) / 2)
    if origin == Origin.X_HEIGHT:
        return x_height_of(info)
    return otr(x_height_of(info) / 2)


@trusted("c15.getAttrWithFallback.heights", "getAttrWithFallback(info, 'capHeight' | 'xHeight') is a function of info (number) [summary; the function is verified under C16]")
def _gawf_heights(ex, st, args, kwargs, node):
    info, attr = args
    if not (attr.is_py and attr.py in ("capHeight", "xHeight")):
        raise Unsupported("getAttrWithFallback summary: only capHeight / xHeight", node)
    from pyvc.api import SPECFNS

    f = ex.spec_decl(SPECFNS["cap_height_of" if attr.py == "capHeight" else "x_height_of"])
    return Val(REAL, f(lift(info)))


# VERIFIED since the engine knows IntEnum members / `is` on them and nested classes of a repo= class (first wave: an unverified opaque
# summary): the method returns exactly the case table `origin_height_spec`; the `raise AssertionError` branch is unreachable for a member
# of the enum.
_GOH_PROPS: list = ["C15"]
contract(
    "ufo2ft.filters.transformations:TransformationsFilter.get_origin_height",
    props=_GOH_PROPS,
    params={"self": Ref("C15_TFilter"), "font": Ref("C02_Font"), "origin": _ORIGIN},
    returns=REAL,
    globals={"getAttrWithFallback": Val.obj(FuncRef(None, "c15.getAttrWithFallback.heights")), "Origin": _TF.Origin},
    ensures={
        "value": "result == origin_height_spec(font.info, origin)",
        "baseline-is-zero": "implies(origin == Origin.BASELINE, result == 0)",
        "halves-are-rounded": "implies(origin == Origin.HALF_CAP_HEIGHT, result == otr(cap_height_of(font.info) / 2))",
    },
    canaries={"always-zero": "result == 0", "never-x-height": "result != x_height_of(font.info)"},
)

class _IdentityVal(Val):
    """the module constant Identity: a Transform reference in the logic; at run time (clauses are evaluated natively with the
    contract's globals in scope) it behaves like the tuple (1, 0, 0, 1, 0, 0)"""

    xx, xy, yx, yy, dx, dy = 1, 0, 0, 1, 0, 0

    def __eq__(self, o):
        try:
            return tuple(o) == (1, 0, 0, 1, 0, 0)
        except TypeError:
            return NotImplemented

    __hash__ = object.__hash__

    def __call__(self):
        """(marks the value as meaningful natively: the run-time side drops non-callable symbolic globals, and the clauses
        `Identity.xx == 1 ...` / `result.matrix == Identity` need the name at run time too)"""
        return self


_IDENT = _IdentityVal(Ref("Transform"), z3.Const("c15_Identity", T.RefSort))
_IDENT_REQ = "Identity.xx == 1 and Identity.xy == 0 and Identity.yx == 0 and Identity.yy == 1 and Identity.dx == 0 and Identity.dy == 0"
_O = "self.options"
_SXp, _SYp = f"({_O}.ScaleX / 100)", f"({_O}.ScaleY / 100)"
_K = f"(slant_k({_O}.Slant) if {_O}.Slant != 0 else 0)"
_H = "origin_height_spec(font.info, self.options.Origin)"
_EXPECTED = [_SXp, "0", f"({_SXp} * {_K})", _SYp, f"({_O}.OffsetX - {_SXp} * {_K} * {_H})", f"({_O}.OffsetY + {_H} - {_SYp} * {_H})"]

contract(
    "ufo2ft.filters.transformations:TransformationsFilter.set_context",
    props=["C15"],
    params={"self": Ref("C15_TFilter"), "font": Ref("C02_Font"), "glyphSet": Ref("C15_GlyphSet")},
    returns=Ref("C02_Ctx"),
    globals={"super": Val.obj(FuncRef(None, "c02.super_filter")), "Identity": _IDENT},
    requires=[_IDENT_REQ],  # the module constant fontTools.misc.transform.Identity
    # one path per combination of the five `if`s: every matrix is then a closed polynomial in the options (merged, the six entries are nested
    # ite-terms over heap reads, which the non-linear solvers handle unreliably and the engine prints slowly)
    merge_branches=False,
    modifies=["C15_TFilter.context", "C02_Ctx.matrix", "C02_Ctx.font"],
    ensures={
        # the requested affine matrix, as ONE closed form: (x, y) -> (sx*(x + k*(y-h)) + dx,  sy*(y-h) + h + dy)
        **{f"matrix-{k}": f"result.matrix.{k} == {e}" for k, e in zip(_T6, _EXPECTED)},
        "nothing-requested-is-identity": f"implies({_O}.OffsetX == 0 and {_O}.OffsetY == 0 and {_O}.ScaleX == 100 and {_O}.ScaleY == 100 and {_O}.Slant == 0, Identity == result.matrix)",  # (operand order: natively _IdentityVal.__eq__ compares the six numbers)
        "is-context": "result == self.context",
    },
    canaries={"offset-after-scale": f"result.matrix.dx == {_SXp} * {_O}.OffsetX - {_SXp} * {_K} * {_H}"},
)


def _tf_cases(rng, n):
    out = []
    for k in range(n):
        o = {}
        if k % 2:
            o["OffsetX"], o["OffsetY"] = rng.choice([0, 10, -30.5]), rng.choice([0, 20, 7.25])
        if (k // 2) % 2:
            o["ScaleX"], o["ScaleY"] = rng.choice([100, 50, 200]), rng.choice([100, 75, 125])
        if (k // 4) % 2:
            o["Slant"] = rng.choice([10, -12, 45])
        o["Origin"] = (k // 8) % 5
        out.append({"opts": o, "ufolib": ["ufoLib2", "defcon"][k % 2]})
    return out


def _tf_build(d):
    from ufo2ft.filters.transformations import TransformationsFilter
    from ufo2ft.util import _GlyphSet

    f = rtlib.build_ufo({"glyphs": {"a": {"width": 500, "box": [0, 0, 100, 100]}}, "info": {"unitsPerEm": 1000, "capHeight": 701, "xHeight": 499}}, d["ufolib"])
    return {"self": TransformationsFilter(**d["opts"]), "font": f, "glyphSet": _GlyphSet.from_layer(f)}

CONTRACTS["ufo2ft.filters.transformations:TransformationsFilter.set_context"].runtime = Runtime(_tf_cases, _tf_build)

# =====================================================================================================
# propagateAnchors._get_anchor_data / _adjust_anchors: an anchor lands where the base's anchor is carried by the
# component's FULL affine map (incl. the shear terms xy / yx), stored under the right name.

cls("C15_AComponent", fields={"baseGlyph": STR, **{"t_" + k: REAL for k in _T6}},
    derived={"transformation": lambda ex, st, self: Val(PYOBJ, None, tuple(ex.read_field(st, self, "t_" + k) for k in _T6), True)},
    views={"t_" + k: (lambda i: (lambda o: o.transformation[i]))(i) for i, k in enumerate(_T6)},
    notes="component: baseGlyph + the six numbers of its transformation")
_POINT = Tuple(REAL, REAL)
_AD = Dict(STR, _POINT)


def _carried(c, a):
    """(x, y) of anchor `a` under component `c`'s full affine map"""
    return f"({c}.t_xx * {a}.x + {c}.t_yx * {a}.y + {c}.t_dx, {c}.t_xy * {a}.x + {c}.t_yy * {a}.y + {c}.t_dy)"


def _carried_d(c, a):
    """_carried written with the symbol dot2 (contracts/c02.py: dot2(a, b, c, d) = a*b + c*d; a product under a quantifier makes the
    solvers unreliable, so the quantified clause carries the symbol and the arithmetic is done once, at the hint, on ground terms)"""
    return f"(dot2({c}.t_xx, {a}.x, {c}.t_yx, {a}.y) + {c}.t_dx, dot2({c}.t_xy, {a}.x, {c}.t_yy, {a}.y) + {c}.t_dy)"


def _first(c, body):
    """`body(m)` holds for the FIRST anchor named anchor_name of component c's base glyph"""
    A = f"glyphSet.glyphs[{c}.baseGlyph].anchors"
    return f"any({A}[m].name == anchor_name and all({A}[q].name != anchor_name for q in range(m)) and {body.format(a=A + '[m]')} for m in range(len({A})))"


def _has(c):
    return f"any(a.name == anchor_name for a in glyphSet.glyphs[{c}.baseGlyph].anchors)"


_OTHERS = "all(implies(k != {names}, k in old(anchor_data) and anchor_data[k] == old(anchor_data)[k]) for k in anchor_data) and all(k in anchor_data for k in old(anchor_data))"

def _gad_ix():
    """the engine's default ghost index of the inner loop (`_ghost_i<line>`): a NAMED index cannot be used because the loop is
    reached twice on one path when the outer loop over two components is unrolled (ghost-name clash, see notes/C01.requests.md)"""
    import ast as _ast

    from pyvc.extract import load_function

    fdef = load_function("ufo2ft.filters.propagateAnchors:_get_anchor_data").fdef
    for n in _ast.walk(fdef):
        if isinstance(n, _ast.For) and _ast.unparse(n.target) == "anchor":
            return f"_ghost_i{n.lineno}"
    return "_ghost_i0"


_IX = _gad_ix()
_AS = "glyphSet.glyphs[component.baseGlyph].anchors"


def _gad_loops(extra):
    return {"for anchor in glyphSet[component.baseGlyph].anchors": Loop(invariants={"none-before": f"all({_AS}[q].name != anchor_name for q in range({_IX}))", **extra})}


def _is_first(c, anchor):
    """`anchor` is the FIRST anchor named anchor_name of component c's base glyph"""
    A = f"glyphSet.glyphs[{c}.baseGlyph].anchors"
    return f"any({A}[m] == {anchor} and {A}[m].name == anchor_name and all({A}[q].name != anchor_name for q in range(m)) for m in range(len({A})))"


def _views_glyphs(o):
    from pyvc.rt import Proxy

    return {n: Proxy(g, CLASSES["C15_Glyph"]) for n, g in o.items()}


CLASSES["C15_GlyphSet"].views["glyphs"] = _views_glyphs
def _views_anchors(o):
    from pyvc.rt import Proxy

    return [Proxy(a, CLASSES["C15_Anchor"]) for a in o.anchors]  # proxies: `==` is object identity, also against old() snapshots


CLASSES["C15_Glyph"].views.update({"anchors": _views_anchors, "ncontours": lambda o: len(o)})

_c0 = Val(Ref("C15_AComponent"), z3.Const("comp0", T.RefSort))
_c1 = Val(Ref("C15_AComponent"), z3.Const("comp1", T.RefSort))

# (a) ONE base component (the common case: a composite over one base glyph)
_A0 = "glyphSet.glyphs[components[0].baseGlyph].anchors"
contract(
    "ufo2ft.filters.propagateAnchors:_get_anchor_data",
    name="one-component",
    props=["C15"],
    params={"anchor_data": _AD, "glyphSet": Ref("C15_GlyphSet"), "components": Const([_c0]), "anchor_name": STR},
    modifies=["anchor_data"],
    requires=["components[0].baseGlyph in glyphSet.glyphs"],  # callers only pass components whose base was found in the glyph set
    ensures={
        # stored under anchor_name, at the image of the FIRST base anchor of that name under the component's full matrix
        # (dot2(a, b, c, d) = a*b + c*d, see _carried_d)
        "carried-by-full-matrix": f"implies({_has('components[0]')}, anchor_name in anchor_data and " + _first("components[0]", "anchor_data[anchor_name] == " + _carried_d("components[0]", "{a}")) + ")",
        "nothing-else-changes": _OTHERS.format(names="anchor_name"),
        "absent-anchor-adds-nothing": f"implies(not {_has('components[0]')} and anchor_name not in old(anchor_data), anchor_name not in anchor_data)",
    },
    canaries={"translation-only": f"implies({_has('components[0]')}, " + _first("components[0]", "anchor_data[anchor_name] == ({a}.x + components[0].t_dx, {a}.y + components[0].t_dy)") + ")"},
    locals={"anchors": List(Tuple(Ref("C15_Anchor"), Ref("C15_AComponent")))},
    merge_branches=False,  # the "found" and "not found" exits of the search loop stay separate paths (smaller terms, ground witnesses)
    # fm: position of the anchor that was found (ghost witness for the ∃ of the postcondition), -1 while nothing was found
    ghost_vars={"fm": (INT, "-1")},
    ghost={"anchors.append((anchor, component))": ["fm = mi"]},
    hints={
        "anchors.append((anchor, component))": [f"anchor == {_A0}[mi] and anchor.name == anchor_name"],
        "anchor_data[anchor.name] = t.transformPoint((anchor.x, anchor.y))": [
            f"0 <= fm and fm < len({_A0}) and anchor == {_A0}[fm] and anchor.name == anchor_name and component == components[0]",
            f"all({_A0}[q].name != anchor_name for q in range(fm))",
            "anchor_data[anchor_name] == " + _carried("components[0]", f"{_A0}[fm]"),  # the arithmetic: transformPoint = full affine map
            "anchor_data[anchor_name] == " + _carried_d("components[0]", f"{_A0}[fm]"),  # ... and the same through the symbol dot2
        ],
    },
    loops={"for anchor in glyphSet[component.baseGlyph].anchors": Loop(index="mi", invariants={
        "none-before": f"all({_AS}[q].name != anchor_name for q in range(mi))",
        "nothing-found-yet": "len(anchors) == 0 and fm == -1",
    })},
)

_HASN = "any(b.name == anchor_name for b in glyphSet.glyphs[{c}.baseGlyph].anchors)"


class _ProbeKey(Val):
    """an ARBITRARY dict key / anchor name (free constant; see _ProbeName further down, which is this class under its documented name)"""

    _NATIVE = "top"

    def __call__(self):
        return self

    def __hash__(self):
        return hash(self._NATIVE)

    def __eq__(self, o):
        return o == self._NATIVE if isinstance(o, str) else NotImplemented

    def __radd__(self, o):
        return o + self._NATIVE


_PROBE_EARLY = _ProbeKey(STR, z3.String("c15_probe_name"))
# (b) ANY number of base components.  The numbered ligature anchors (name_1, name_2, ... when several bases carry the anchor) need
#     facts about every earlier entry of `anchors` across two loops; the two-component decision table was tried and left three
#     obligations at solver timeouts, so this case is: memory-safety proved for all inputs + the exact result BOUNDED (run-time
#     clause against an independent computation, real glyph objects of both UFO libraries).
def _expected_anchor_data(before, glyphSet, components, anchor_name):
    found = []
    for c in components:
        for a in glyphSet[c.baseGlyph].anchors:
            if a.name == anchor_name:
                found.append((a, c))
                break
    out = dict(before)

    def carried(a, c):
        xx, xy, yx, yy, dx, dy = c.transformation
        return (xx * a.x + yx * a.y + dx, xy * a.x + yy * a.y + dy)

    if len(found) > 1:
        for i, (a, c) in enumerate(found):
            out[f"{anchor_name}_{i + 1}"] = carried(a, c)
    elif found:
        out[anchor_name] = carried(*found[0])
    return out


contract(
    "ufo2ft.filters.propagateAnchors:_get_anchor_data",
    name="any-components",
    props=["C15"],
    params={"anchor_data": _AD, "glyphSet": Ref("C15_GlyphSet"), "components": List(Ref("C15_AComponent")), "anchor_name": STR},
    modifies=["anchor_data"],
    requires=["all(c.baseGlyph in glyphSet.glyphs for c in components)"],
    globals={"expected_anchor_data": _expected_anchor_data, "probe": _PROBE_EARLY},
    ensures={
        # WHERE the values come from (for the arbitrary key `probe`, see _ProbeName): an entry is either untouched or the image of an anchor
        # named anchor_name of some component's base glyph under THAT component's full affine map (dot2(a, b, c, d) = a*b + c*d)
        "value-is-a-carried-image": "implies(probe in anchor_data, (probe in old(anchor_data) and anchor_data[probe] == old(anchor_data)[probe]) or "
        "any(any(b.name == anchor_name and anchor_data[probe] == " + _carried_d("components[a]", "b") + " for b in glyphSet.glyphs[components[a].baseGlyph].anchors) for a in range(len(components))))",
        # no name is dropped, and every NEW name is anchor_name itself or an extension of it (anchor_name + "_" + number)
        "keeps-existing-names": "all(k in anchor_data for k in old(anchor_data))",
        "new-names-extend-the-anchor-name": "all(k in old(anchor_data) or k.startswith(anchor_name) for k in anchor_data)",
        # if some component's base carries an anchor of that name, a key extending the name IS there afterwards (the name itself, or name_1)
        "adds-when-present": f"implies(any({_HASN.format(c='components[a]')} for a in range(len(components))), any(k.startswith(anchor_name) for k in anchor_data))",
    },
    bounded_ensures={"exact-result": "dict(anchor_data) == expected_anchor_data(old(dict(anchor_data)), glyphSet, components, anchor_name)"},
    canaries={"never-adds": "all(k in old(anchor_data) for k in anchor_data)"},
    locals={"anchors": List(Tuple(Ref("C15_Anchor"), Ref("C15_AComponent")))},
    # CA / CB: for every entry of `anchors`, the position of its component in `components` and of its anchor in that base glyph's anchor list;
    # wa / wb: the same two positions for the entry that wrote the key `probe` last (-1: nobody did)  — ghost witnesses
    ghost_vars={"AD0": (_AD, "anchor_data"), "CA": (List(INT), "[]"), "CB": (List(INT), "[]"), "wa": (INT, "-1"), "wb": (INT, "-1")},
    ghost={"anchors.append((anchor, component))": ["CA = CA + [ci]", "CB = CB + [ai]"],
           "anchor_data[name] = t.transformPoint((anchor.x, anchor.y))": ["wa = CA[ei] if name == probe else wa", "wb = CB[ei] if name == probe else wb"],
           "anchor_data[anchor.name] = t.transformPoint((anchor.x, anchor.y))": ["wa = CA[0] if anchor.name == probe else wa", "wb = CB[0] if anchor.name == probe else wb"]},
    hints={
        "anchor_data[name] = t.transformPoint((anchor.x, anchor.y))": [
            "anchor_data[name] == " + _carried("component", "anchor"),  # the arithmetic: transformPoint = full affine map
            "anchor_data[name] == " + _carried_d("component", "anchor"),  # ... and the same through the symbol dot2
        ],
        "anchor_data[anchor.name] = t.transformPoint((anchor.x, anchor.y))": [
            "anchor_data[anchor.name] == " + _carried("component", "anchor"),
            "anchor_data[anchor.name] == " + _carried_d("component", "anchor"),
        ],
    },
    merge_branches=False,  # several / one / no base anchor of that name: three separate paths
    loops={
        "for component in components": Loop(index="ci", invariants={
            "index-lists": "len(CA) == len(anchors) and len(CB) == len(anchors)",
            "sources": "all(0 <= CA[k] and CA[k] < len(components) and components[CA[k]] == anchors[k][1] and 0 <= CB[k] and CB[k] < len(glyphSet.glyphs[components[CA[k]].baseGlyph].anchors) and glyphSet.glyphs[components[CA[k]].baseGlyph].anchors[CB[k]] == anchors[k][0] for k in range(len(anchors)))",
            "found-have-the-name": "all(anchors[k][0].name == anchor_name for k in range(len(anchors)))",
            "found-when-present": f"implies(any({_HASN.format(c='components[a]')} for a in range(ci)), len(anchors) >= 1)"}),
        "for anchor in glyphSet[component.baseGlyph].anchors": Loop(index="ai", invariants={
            "index-lists": "len(CA) == len(anchors) and len(CB) == len(anchors)",
            "sources": "all(0 <= CA[k] and CA[k] < len(components) and components[CA[k]] == anchors[k][1] and 0 <= CB[k] and CB[k] < len(glyphSet.glyphs[components[CA[k]].baseGlyph].anchors) and glyphSet.glyphs[components[CA[k]].baseGlyph].anchors[CB[k]] == anchors[k][0] for k in range(len(anchors)))",
            "found-have-the-name": "all(anchors[k][0].name == anchor_name for k in range(len(anchors)))",
            "not-yet": "all(glyphSet.glyphs[component.baseGlyph].anchors[q].name != anchor_name for q in range(ai))",
            "found-when-present": f"implies(any({_HASN.format(c='components[a]')} for a in range(ci)), len(anchors) >= 1)"}),
        "for (i, (anchor, component)) in enumerate(anchors)": Loop(
            index="ei",
            invariants={
                "kept": "all(k in anchor_data for k in AD0)",
                "new-extend": "all(k in AD0 or k.startswith(anchor_name) for k in anchor_data)",
                "first-added": "implies(ei > 0, (anchor_name + '_1') in anchor_data)",
                "witness-range": "-1 <= wa",
                "witness-positions": "implies(wa >= 0, probe in anchor_data and wa < len(components) and 0 <= wb and wb < len(glyphSet.glyphs[components[wa].baseGlyph].anchors))",
                "witness-name": "implies(wa >= 0, glyphSet.glyphs[components[wa].baseGlyph].anchors[wb].name == anchor_name)",
                "witness-value": "implies(wa >= 0, probe in anchor_data and anchor_data[probe] == " + _carried_d("components[wa]", "glyphSet.glyphs[components[wa].baseGlyph].anchors[wb]") + ")",
                "untouched": "implies(wa < 0, (probe in anchor_data) == (probe in AD0) and implies(probe in anchor_data, anchor_data[probe] == AD0[probe]))",
            },
        ),
    },
)


def _gad_cases(rng, n):
    from vcheck.hooks import c15_render as R

    out = []
    for k in range(n):
        desc = R.rand_graph(rng, n_base=3, n_comp=2, depth=2, curves=None, mixed=False, anchors=True)
        for g in desc.values():
            if rng.random() < 0.5 and not any(a[0] == "top" for a in g["anchors"]):
                g["anchors"].append(["top", rng.randrange(0, 500) + 0.5, rng.randrange(0, 700)])
        comps = [[rng.choice(["b0", "b1", "b2"]), R.rand_matrix(rng)] for _ in range(rng.randint(1, 3))]
        desc["probe"] = {"width": 500, "height": 0, "contours": [], "components": comps, "anchors": []}
        out.append({"glyphs": desc, "name": rng.choice(["top", "bottom", "ogonek", "_top"]), "before": {"x": [1.0, 2.0]} if k % 3 == 0 else {}, "ufolib": ["ufoLib2", "defcon"][k % 2]})
    return out


def _gad_build(d):
    f = rtlib.build_ufo({"glyphs": d["glyphs"]}, d["ufolib"])
    gs = {g.name: g for g in f}
    return {"anchor_data": {k: tuple(v) for k, v in d["before"].items()}, "glyphSet": gs, "components": list(gs["probe"].components), "anchor_name": d["name"]}


CONTRACTS["ufo2ft.filters.propagateAnchors:_get_anchor_data#any-components"].runtime = Runtime(_gad_cases, _gad_build)

_HASMARK = "any(b.name == '_' + {a}.name for b in glyphSet.glyphs[component.baseGlyph].anchors)"


class _ProbeName(Val):
    """An ARBITRARY anchor name: a free constant of sort String that the code never sees.  Every obligation of the contract below is proved
    with this constant unconstrained, i.e. for every name (generalisation on constants) — the statement "for all keys k of anchor_data"
    without a quantifier over the dict (which drags the dict's key-order axioms and an ∃ under a ∀ into every obligation: the earlier
    quantified form of this contract was discharged only in some runs).  Natively (run-time cross-check) it stands for the key "top";
    the all-keys statement is evaluated there by the bounded clause `every-key`."""

    _NATIVE = "top"

    def __call__(self):  # (callable => the run-time side keeps the binding)
        return self

    def __hash__(self):
        return hash(self._NATIVE)

    def __eq__(self, o):
        return o == self._NATIVE if isinstance(o, str) else NotImplemented

    def __radd__(self, o):
        return o + self._NATIVE


_PROBE = _ProbeName(STR, z3.String("c15_probe_name"))


_MOVED_TO = "any(a.name == {k} and " + _HASMARK.format(a="a") + " and anchor_data[{k}] == " + _carried_d("component", "a") + " for a in glyphSet.glyphs[component.baseGlyph].anchors)"

contract(
    "ufo2ft.filters.propagateAnchors:_adjust_anchors",
    props=["C15"],
    params={"anchor_data": _AD, "glyphSet": Ref("C15_GlyphSet"), "component": Ref("C15_AComponent")},
    globals={"probe": _PROBE},
    modifies=["anchor_data"],
    requires=["component.baseGlyph in glyphSet.glyphs"],
    ensures={
        # (for the arbitrary name `probe`, see _ProbeName)  never adds or removes a name ...
        "same-names": "(probe in anchor_data) == (probe in old(anchor_data))",
        "keys-kept": "all(k in anchor_data for k in old(anchor_data))",  # (the half of it that callers need for EVERY key, as a quantified clause)
        # ... a value only changes to where the mark component carries its own base anchor of that name (mark must have `_name` too),
        # under the component's FULL matrix
        "moved-only-to-carried-position": "implies(probe in anchor_data, anchor_data[probe] == old(anchor_data)[probe] or " + _MOVED_TO.format(k="probe") + ")",
    },
    # the same two statements for EVERY key, evaluated natively on real glyph objects
    bounded_ensures={
        "every-key": "all(k in old(anchor_data) for k in anchor_data) and all(k in anchor_data for k in old(anchor_data)) and "
                     "all(anchor_data[k] == old(anchor_data)[k] or " + _MOVED_TO.format(k="k") + " for k in anchor_data)",
    },
    canaries={"never-moves": "implies(probe in anchor_data, anchor_data[probe] == old(anchor_data)[probe])"},
    loops={
        "for anchor in glyph.anchors": Loop(
            index="m0", seq="AS",
            invariants={
                "same-names": "(probe in anchor_data) == (probe in AD0)",
                "keys-kept": "all(k in anchor_data for k in AD0)",
                # wq: position of the anchor that moved `probe` last, -1 if none did (ghost witness for the ∃ of the postcondition)
                "witness-range": "-1 <= wq and wq < m0",
                "witness-name": "implies(wq >= 0, probe in anchor_data and AS[wq].name == probe)",
                "witness-mark": "implies(wq >= 0, " + _HASMARK.format(a="AS[wq]") + ")",
                "witness-value": "implies(wq >= 0, probe in anchor_data and anchor_data[probe] == " + _carried_d("component", "AS[wq]") + ")",
                "untouched": "implies(wq < 0 and probe in anchor_data, anchor_data[probe] == AD0[probe])",
            },
        )
    },
    ghost_vars={"AD0": (_AD, "anchor_data"), "wq": (INT, "-1")},
    ghost={"anchor_data[anchor.name] = t.transformPoint((anchor.x, anchor.y))": ["wq = m0 if anchor.name == probe else wq"]},
    hints={"anchor_data[anchor.name] = t.transformPoint((anchor.x, anchor.y))": [
        "anchor == AS[m0] and anchor_data[anchor.name] == " + _carried("component", "anchor"),  # the arithmetic: transformPoint = full affine map
        "anchor_data[anchor.name] == " + _carried_d("component", "anchor"),  # ... and the same through the symbol dot2
        _HASMARK.format(a="anchor"),
    ]},
)


def _aa_cases(rng, n):
    out = []
    for d in _gad_cases(rng, n):
        # anchor data as _get_anchor_data leaves it for the base components, then a MARK component (its base glyph carries `_top`/`top` ...)
        for g in d["glyphs"].values():
            if rng.random() < 0.6:
                g["anchors"].append(["_" + rng.choice(["top", "bottom"]), rng.randrange(0, 300), rng.randrange(0, 300)])
        d["before"] = {k: [rng.randrange(0, 500) + 0.5, rng.randrange(0, 700)] for k in rng.sample(["top", "bottom", "ogonek", "x"], rng.randint(0, 4))}
        out.append(d)
    return out


def _aa_build(d):
    f = rtlib.build_ufo({"glyphs": d["glyphs"]}, d["ufolib"])
    gs = {g.name: g for g in f}
    return {"anchor_data": {k: tuple(v) for k, v in d["before"].items()}, "glyphSet": gs, "component": list(gs["probe"].components)[0]}


CONTRACTS["ufo2ft.filters.propagateAnchors:_adjust_anchors"].runtime = Runtime(_aa_cases, _aa_build)

# =====================================================================================================
# decomposeTransformedComponents: a component counts as transformed iff its 2x2 part is not the identity (offsets do not count);
# the filter fully decomposes a glyph iff it has such a component, through DecomposeComponentsFilter.filter (C01 contract)

_2x2_ID = "(component.t_xx == 1 and component.t_xy == 0 and component.t_yx == 0 and component.t_yy == 1)"
contract(
    "ufo2ft.filters.decomposeTransformedComponents:_isTransformed",
    props=["C15"],
    params={"component": Ref("C01_Component")},
    returns=BOOL,
    globals={"IDENTITY_2x2": Val.const((1.0, 0.0, 0.0, 1.0))},  # = Identity[:4] (ints 1,0,0,1 in the module; same numbers)
    ensures={"two-by-two-only": f"result == (not {_2x2_ID})"},
    canaries={"offset-counts": "result == (component.t_dx != 0 or component.t_dy != 0)"},
)


def _super_decompose_filter(ex, st, self, args, kwargs, node):
    me = st.env["self"]
    return ex.call_contract(CONTRACTS["ufo2ft.filters.decomposeComponents:DecomposeComponentsFilter.filter#c01"], [me] + list(args), kwargs, st, node)


_super_decompose_filter.modifies = ["C01_Glyph.components", "C01_Glyph.log_drawn", "C01_Glyph.log_pens"]
cls("C15_SuperDecompose", methods={"filter": _super_decompose_filter}, notes="super() in DecomposeTransformedComponentsFilter: DecomposeComponentsFilter.filter, through ITS contract")


@trusted("c15.super_decompose", "super().filter(glyph) in DecomposeTransformedComponentsFilter resolves to DecomposeComponentsFilter.filter (class hierarchy read from the source; the callee is used through its contract)")
def _super_dec(ex, st, args, kwargs, node):
    return ex.new_object(st, "C15_SuperDecompose")


@trusted("c15.isTransformed_summary", "summary of ufo2ft _isTransformed(component) = its 2x2 part differs from (1,0,0,1) [the contract `_isTransformed` proved above; "
         "a contract call inside a generator expression is not supported by the engine, so the call site uses the proved postcondition as a pure function]")
def _is_transformed_summary(ex, st, args, kwargs, node):
    c = args[0]
    f = [lift(ex.read_field(st, c, "t_" + k), REAL) for k in ("xx", "xy", "yx", "yy")]
    return Val(BOOL, z3.Not(z3.And(f[0] == 1, f[1] == 0, f[2] == 0, f[3] == 1)))


_ANYT = "any(not (c.t_xx == 1 and c.t_xy == 0 and c.t_yx == 0 and c.t_yy == 1) for c in old(glyph.components))"
contract(
    "ufo2ft.filters.decomposeTransformedComponents:DecomposeTransformedComponentsFilter.filter",
    props=["C15"],
    params={"self": Ref("C01_Filter"), "glyph": Ref("C01_Glyph")},
    returns=BOOL,
    globals={"super": Val.obj(FuncRef(None, "c15.super_decompose")), "_isTransformed": Val.obj(FuncRef(None, "c15.isTransformed_summary"))},
    modifies=["C01_Glyph.components", "C01_Glyph.log_drawn", "C01_Glyph.log_pens"],
    ensures={
        "decomposed-iff-transformed": f"result == {_ANYT}",
        "then-fully": f"implies({_ANYT}, len(glyph.components) == 0 and all(glyph.log_pens[k].reverseFlipped and glyph.log_pens[k].include is None for k in {c01._NEWPENS}))",
        "else-untouched": f"implies(not {_ANYT}, glyph.components == old(glyph.components) and len(glyph.log_pens) == len(old(glyph.log_pens)))",
    },
    raises={"MissingComponentError": "any(not (c.t_xx == 1 and c.t_xy == 0 and c.t_yx == 0 and c.t_yy == 1) for c in glyph.components) and any(c.baseGlyph not in self.context.glyphSet for c in glyph.components)"},
    canaries={"always": "result"},
)

# =====================================================================================================
# TransformationsFilter.filter — the part after the bases were handled: the glyph's outline is replayed ONCE through a
# TransformPointPen(out=glyph's pen, matrix, modified), every anchor is mapped as a POINT (transformPoint), the advance
# (width, height) as a VECTOR (transformVector).
#
# Stated as internal assertions (`hints`, proved for all inputs) over ghost snapshots taken after the loop that recurses into the
# bases: the recursive calls may legitimately change other glyphs, and the engine has no frame vocabulary to export "this glyph's
# anchors were not among them" as a postcondition.  `modified = self.context.modified` is an ALIAS of the context's set: the engine
# links the local to the field (`modified.add(..)` writes through), hence `C02_Ctx.modified` in the frame and the clause
# `modified-only-grows`; the compensation that depends on the set's content is proved in TransformPointPen.addComponent.


def _rec_init(ex, st, self, args, kwargs, node):
    return None


def _glyph_drawPoints_rec(ex, st, self, args, kwargs, node):
    ex.write_field(st, args[0], "recorded", self, node)
    return Val.const(None)


def _rec_replay(ex, st, self, args, kwargs, node):
    """RecordingPointPen.replay(pen): every recorded call is re-issued on `pen` (TRUSTED); logged on the glyph the pen writes into"""
    pen = args[0]
    out = ex.read_field(st, ex.read_field(st, pen, "_outPen"), "glyph")
    ex.write_field(st, out, "replayed_from", ex.read_field(st, self, "recorded"), node)
    ex.write_field(st, out, "replayed_through", pen, node)
    n = ex.read_field(st, out, "replay_count")
    ex.write_field(st, out, "replay_count", Val(INT, lift(n) + 1), node)
    return Val.const(None)


cls("RecordingPointPen", fields={"recorded": Ref("C15_Glyph")}, dynamic=True, methods={"__init__": _rec_init, "replay": _rec_replay},
    notes="fontTools RecordingPointPen: records what is drawn into it; replay(pen) re-issues it (TRUSTED)")
CLASSES["C15_OutPen"].fields["glyph"] = Ref("C15_Glyph")
CLASSES["C15_Glyph"].fields.update({"replayed_from": Ref("C15_Glyph"), "replayed_through": Ref("C15_TPen"), "replay_count": INT, "cleared_contours": INT, "cleared_components": INT})


def _count(field):
    def m(ex, st, self, args, kwargs, node):
        n = ex.read_field(st, self, field)
        ex.write_field(st, self, field, Val(INT, lift(n) + 1), node)
        return Val.const(None)

    return m


def _g_getPointPen(ex, st, self, args, kwargs, node):
    p = ex.new_object(st, "C15_OutPen")
    ex.write_field(st, p, "glyph", self, node)
    return p


CLASSES["C15_Glyph"].methods.update({"drawPoints": _glyph_drawPoints_rec, "clearContours": _count("cleared_contours"), "clearComponents": _count("cleared_components"),
                                     "getPointPen": _g_getPointPen})
CLASSES["C15_TFilter"].methods["include"] = lambda ex, st, self, args, kwargs, node: Val(BOOL, z3.Function("c15_included", T.RefSort, T.RefSort, z3.BoolSort())(lift(self), lift(args[0])))

CLASSES["TransformPointPen"] = CLASSES["C15_TPen"]  # the constructor call in filter() resolves to the __init__ contract above
_MX = "self.context.matrix"
_FILTER_FIELDS = ["C15_Glyph.width", "C15_Glyph.height", "C15_Anchor.x", "C15_Anchor.y", "C15_Glyph.replayed_from", "C15_Glyph.replayed_through", "C15_Glyph.replay_count",
                  "C15_Glyph.cleared_contours", "C15_Glyph.cleared_components", "C15_TPen._outPen", "C15_TPen._transformation", "C15_TPen._inverted", "C15_TPen.modified",
                  "C15_OutPen.glyph", "RecordingPointPen.recorded", "C02_Ctx.modified"]
contract(
    "ufo2ft.filters.transformations:TransformationsFilter.filter",
    props=["C15"],
    params={"self": Ref("C15_TFilter"), "glyph": Ref("C15_Glyph")},
    returns=BOOL,
    globals={"Identity": _IDENT},
    calls={"ufo2ft.filters.transformations:TransformPointPen.__init__": "ufo2ft.filters.transformations:TransformPointPen.__init__#stored"},
    requires=[
        _IDENT_REQ,
        # value semantics of `matrix == Identity` (tuple equality): the only transform with the identity's six numbers is Identity
        f"implies({_MX}.xx == 1 and {_MX}.xy == 0 and {_MX}.yx == 0 and {_MX}.yy == 1 and {_MX}.dx == 0 and {_MX}.dy == 0, {_MX} == Identity)",
        f"{_MX}.xx * {_MX}.yy - {_MX}.yx * {_MX}.xy != 0",  # invertible (set_context: scale factors are non-zero percentages)
        "distinct(glyph.anchors)",  # separate anchor objects
        "all(c.baseGlyph in self.context.glyphSet.glyphs for c in glyph.components)",  # every base is in the glyph set (KeyError otherwise)
        "glyph.ncontours >= 0",
        # ... and the same for every glyph of the glyph set (the function recurses into the bases)
        "all(distinct(self.context.glyphSet.glyphs[n].anchors) and self.context.glyphSet.glyphs[n].ncontours >= 0"
        " and all(c.baseGlyph in self.context.glyphSet.glyphs for c in self.context.glyphSet.glyphs[n].components) for n in self.context.glyphSet.names)",
    ],
    modifies=_FILTER_FIELDS,
    ensures={
        "nothing-to-do": f"implies({_MX} == Identity or (glyph.ncontours == 0 and len(glyph.components) == 0 and len(glyph.anchors) == 0), not result)",
        "modified-only-grows": "all(n in self.context.modified for n in old(self.context.modified))",
        "otherwise-transformed": f"implies(not ({_MX} == Identity or (glyph.ncontours == 0 and len(glyph.components) == 0 and len(glyph.anchors) == 0)), result"
        f" and glyph.replayed_from == glyph and glyph.replayed_through._transformation == {_MX} and glyph.replayed_through._outPen.glyph == glyph)",
    },
    canaries={"always-false": "not result"},
    ghost_vars={"AX": (List(REAL), "[]"), "AY": (List(REAL), "[]"), "W0": (REAL, "0"), "H0": (REAL, "0"), "RC": (INT, "0")},
    ghost={"rec.replay(filterpen)": ["AX = [b.x for b in glyph.anchors]", "AY = [b.y for b in glyph.anchors]", "W0 = glyph.width", "H0 = glyph.height", "RC = glyph.replay_count"]},
    hints={
        # the outline was cleared and replayed exactly once through a pen carrying THE matrix and the context's modified set
        "rec.replay(filterpen)": [f"filterpen._transformation == {_MX} and filterpen._outPen.glyph == glyph and rec.recorded == glyph"],
        # the arithmetic of one anchor (ground terms: the definition of dot2 is instantiated here): transformPoint = full affine map
        "a.x, a.y = matrix.transformPoint((a.x, a.y))": [
            f"a == glyph.anchors[ai] and a.x == dot2({_MX}.xx, AX[ai], {_MX}.yx, AY[ai]) + {_MX}.dx and a.y == dot2({_MX}.xy, AX[ai], {_MX}.yy, AY[ai]) + {_MX}.dy",
            # frame of the two stores, spelled out: the anchors before position ai are other objects, so what was established for them still holds
            "all(glyph.anchors[k] != a for k in range(ai))",
            f"all(glyph.anchors[k].x == dot2({_MX}.xx, AX[k], {_MX}.yx, AY[k]) + {_MX}.dx for k in range(ai))",
            f"all(glyph.anchors[k].y == dot2({_MX}.xy, AX[k], {_MX}.yy, AY[k]) + {_MX}.dy for k in range(ai))",
        ],
        # advance = linear part only (a vector): no offset added
        "glyph.width, glyph.height = matrix.transformVector((glyph.width, glyph.height))": [
            f"glyph.width == {_MX}.xx * W0 + {_MX}.yx * H0 and glyph.height == {_MX}.xy * W0 + {_MX}.yy * H0",
            # every anchor = full affine map of its old position (a point); dot2(a, b, c, d) = a*b + c*d (contracts/c02.py: kept as a
            # symbol so that the quantified facts are free of non-linear arithmetic; its definition is used at the hint inside the loop)
            f"all(glyph.anchors[k].x == dot2({_MX}.xx, AX[k], {_MX}.yx, AY[k]) + {_MX}.dx for k in range(len(glyph.anchors)))",
            f"all(glyph.anchors[k].y == dot2({_MX}.xy, AX[k], {_MX}.yy, AY[k]) + {_MX}.dy for k in range(len(glyph.anchors)))",
            "glyph.replay_count == RC",
        ],
    },
    loops={
        "for component in glyph.components": Loop(index="ci", invariants={"modified-only-grows": "all(n in self.context.modified for n in old(self.context.modified))"}),
        "for a in glyph.anchors": Loop(
            index="ai",
            invariants={
                "len": "len(AX) == len(glyph.anchors) and len(AY) == len(glyph.anchors)",
                "done-x": f"all(glyph.anchors[k].x == dot2({_MX}.xx, AX[k], {_MX}.yx, AY[k]) + {_MX}.dx for k in range(ai))",
                "done-y": f"all(glyph.anchors[k].y == dot2({_MX}.xy, AX[k], {_MX}.yy, AY[k]) + {_MX}.dy for k in range(ai))",
                "todo": "all(glyph.anchors[k].x == AX[k] and glyph.anchors[k].y == AY[k] for k in range(ai, len(glyph.anchors)))",
            },
        ),
    },
    locals={"modified": Set(STR)},
)

# =====================================================================================================
# propagateAnchors._propagate_glyph_anchors (recursive; shared `processed` / `modified` sets).  Stated for the arbitrary anchor name `probe`
# (see _ProbeName) and proved for all inputs:
#   * NEVER OVERRIDES: an anchor appended to the composite never carries the name of an anchor the composite already had;
#   * ONLY APPENDS: the composite's existing anchors stay where they are (same objects, same positions in the list);
#   * a glyph that is already in `processed` is left completely alone (no anchor appended anywhere, `modified` unchanged), every glyph the
#     call works on ends up in `processed`, and `processed` / `modified` only grow;
#   * glyphs that were already processed are not touched by the recursion into the bases.
# (Idempotence of the FILTER — a second run with a fresh `processed` adds nothing — is a two-run statement: bounded observer.)

contract(
    "ufo2ft.filters.propagateAnchors:_is_ligature_mark",
    props=["C15"],
    params={"glyph": Ref("C15_Glyph")},
    returns=BOOL,
    ensures={"def": "result == (not glyph.name.startswith('_') and '_' in glyph.name)"},
    canaries={"always": "result"},
)


def _min_member(ex, st, args, kwargs, node):
    """builtins.min(<non-empty list>, key=...): SOME element of the list (which one is decided by the key — not needed here); ValueError
    for an empty list  [python builtin semantics, TRUSTED]"""
    from pyvc import models

    (v,) = [models.materialize(ex, a) for a in args]
    if not isinstance(v.ty, T.List) or set(kwargs) - {"key"}:
        raise Unsupported("min(): only min(<list>, key=...) is modelled here", node)
    s = lift(v)
    ex.safety(st, z3.Length(s) > 0, "ValueError", node)
    p = z3.Int(fresh_name("minpos"))
    st.assume(z3.And(0 <= p, p < z3.Length(s), z3.Contains(s, z3.Unit(s[p]))))  # (an element at a position is a member: theorem of sequences)
    return Val(v.ty.elem, s[p])


contract(
    "ufo2ft.filters.propagateAnchors:_component_closest_to_origin",
    props=["C15"],
    params={"components": List(Ref("C15_AComponent")), "glyph_set": Ref("C15_GlyphSet")},
    returns=Ref("C15_AComponent"),
    models={"builtins.min": _min_member},
    requires=["len(components) > 0"],
    ensures={"one-of-them": "any(components[k] == result for k in range(len(components)))", "a-member": "result in components"},
    canaries={"the-first": "result == components[0]"},
)


def _appendAnchor(ex, st, self, args, kwargs, node):
    """glyph.appendAnchor({"name": n, "x": x, "y": y}) [ufoLib2 / defcon]: a NEW anchor object with these values is appended to the glyph's
    anchor list (TRUSTED library behaviour)."""
    (d,) = args
    if not (d.is_py and isinstance(d.py, dict) and set(d.py) == {"name", "x", "y"}):
        raise Unsupported("appendAnchor(...) with other than a literal {'name', 'x', 'y'} dict", node)
    a = ex.new_object(st, "C15_Anchor")
    nm = d.py["name"]
    st.assume(_ANCHOR_NAME(lift(a)) == lift(nm if isinstance(nm, Val) else Val.const(nm), STR))  # the new object's (immutable) name
    for k in ("x", "y"):
        v = d.py[k]
        ex.write_field(st, a, k, v if isinstance(v, Val) else Val.const(v), node)
    cur = ex.read_field(st, self, "anchors")
    t = lift(cur)
    new = z3.Concat(t, z3.Unit(lift(a)))
    k = z3.Int(fresh_name("ak"))
    st.assume(z3.And(z3.Length(new) == z3.Length(t) + 1, new[z3.Length(t)] == lift(a), z3.ForAll([k], z3.Implies(z3.And(0 <= k, k < z3.Length(t)), new[k] == t[k]))))
    ex.write_field(st, self, "anchors", Val(cur.ty, new), node)
    return Val.const(None)


_appendAnchor.modifies = ["C15_Glyph.anchors", "C15_Anchor.x", "C15_Anchor.y"]
CLASSES["C15_Glyph"].methods["appendAnchor"] = _appendAnchor
cls("C15_Categories", fields={"mark": Set(STR)}, notes="OpenTypeCategories: only the set of mark glyph names is used")


def _sorted_items(ex, st, args, kwargs, node):
    """builtins.sorted(d.items()) for a dict with str keys: the (key, value) pairs of d, each key once (which order: by key — not needed
    here)  [python builtin semantics, TRUSTED].  Modelled as a list of keys K with the same elements as d's key set; item i = (K[i], d[K[i]])."""
    from pyvc import models
    from pyvc.stmts import IterInfo

    (v,) = args
    info = models.carrier_info(v)
    meta = getattr(info, "dict_items", None) if info is not None else None
    if meta is None or meta[2] != "items" or kwargs:
        raise Unsupported("sorted(): only sorted(<dict>.items()) is modelled here", node)
    t, d, _ = meta
    s = t.sort()
    ks = z3.Const(fresh_name("sorted_keys"), z3.SeqSort(t.k.sort()))
    x = z3.Const(fresh_name("sk"), t.k.sort())
    i = z3.Int(fresh_name("si"))
    st.assume(z3.ForAll([x], z3.Contains(ks, z3.Unit(x)) == z3.Select(s.dom(d), x)))
    st.assume(z3.ForAll([i], z3.Implies(z3.And(0 <= i, i < z3.Length(ks)), z3.Select(s.dom(d), ks[i]))))
    st.assume((z3.Length(ks) == 0) == (s.dom(d) == z3.K(t.k.sort(), z3.BoolVal(False))))  # no pairs iff the dict is empty
    item = lambda j: Val(PYOBJ, None, (Val(t.k, ks[j]), Val(t.v, z3.Select(s.map(d), ks[j]))), True)  # noqa: E731
    out = IterInfo("indexed", n=z3.Length(ks), item=item, seqval=Val(List(t.k), ks))
    return Val(PYOBJ, None, ("iterinfo", out, None), True)


def _second_run_adds_nothing(glyphSet, composite, categories):
    """run-time clause (bounded): a second application to the (real) result, with fresh `processed` / `modified`, appends nothing anywhere"""
    from pyvc.rt import unwrap
    from ufo2ft.filters.propagateAnchors import _propagate_glyph_anchors

    gs = unwrap(glyphSet)
    before = {n: [a.name for a in g.anchors] for n, g in gs.items()}
    modified = set()
    _propagate_glyph_anchors(gs, unwrap(composite), set(), modified, unwrap(categories))
    return not modified and before == {n: [a.name for a in g.anchors] for n, g in gs.items()}


_PGA = "ufo2ft.filters.propagateAnchors:_propagate_glyph_anchors"
_GSG = "glyphSet.glyphs"
_HAD = "any(a.name == probe for a in old(composite.anchors))"
_NA0 = "len(old(composite.anchors))"
_UNTOUCHED = f"all(implies(n in old(processed), {_GSG}[n].anchors == old({_GSG}[n].anchors)) for n in glyphSet.names)"
_NO_OVERRIDE = "implies(probe in to_add, not any(a.name == probe for a in A0))"  # A0: the composite's anchors at entry (ghost snapshot)
_PRESENT = "all(c.baseGlyph in glyphSet.glyphs for c in {l})"
contract(
    _PGA,
    props=["C15"],
    params={"glyphSet": Ref("C15_GlyphSet"), "composite": Ref("C15_Glyph"), "processed": Set(STR), "modified": Set(STR), "categories": Ref("C15_Categories")},
    globals={"probe": _PROBE, "second_run_adds_nothing": _second_run_adds_nothing},
    calls={"ufo2ft.filters.propagateAnchors:_get_anchor_data": "ufo2ft.filters.propagateAnchors:_get_anchor_data#any-components"},
    models={"builtins.sorted": _sorted_items},
    dict_key_positions=False,
    merge_branches=False,  # (with / without the promotion of a mark component: separate paths, small terms)
    extract_free=True, seq_bridge=True,  # `mark_components.remove(c)`: the two halves and their concatenation come with position-wise facts
    # (anchor positions: only the NEW anchors' x / y are written; declared class-wide because the frame check cannot see through the loop cut
    #  that the written objects are new — callers merely forget positions; names are immutable, see C15_Anchor)
    modifies=["processed", "modified", "C15_Glyph.anchors", "C15_Anchor.x", "C15_Anchor.y"],
    requires=[
        f"all({_GSG}[n].name == n for n in glyphSet.names)",  # the glyph set maps every name to the glyph of that name
        f"composite.name in {_GSG} and {_GSG}[composite.name] == composite",
    ],
    ensures={
        "processed-grows": "all(n in processed for n in old(processed)) and composite.name in processed",
        "modified-grows": "all(n in modified for n in old(modified))",
        # a glyph that was already processed is left completely alone ...
        "processed-glyph-skipped": "implies(composite.name in old(processed), processed == old(processed) and modified == old(modified))",
        # ... by this activation and by the recursion into the bases
        "processed-glyphs-untouched": _UNTOUCHED,
        # ONLY APPENDS: the anchors the composite had stay where they are (same objects)
        "only-appends": f"len(composite.anchors) >= {_NA0} and all(composite.anchors[k] == old(composite.anchors)[k] for k in range({_NA0}))",
        # NEVER OVERRIDES (for the arbitrary name `probe`): no appended anchor carries the name of an anchor the composite already had
        "never-overrides": f"implies({_HAD}, all(composite.anchors[k].name != probe for k in range({_NA0}, len(composite.anchors))))",
    },
    # NEVER OVERRIDES for every name at once, natively on real glyph objects
    bounded_ensures={
        "never-overrides-any-name": f"all(composite.anchors[k].name not in [a.name for a in old(composite.anchors)] for k in range({_NA0}, len(composite.anchors)))",
        # TWO-RUN IDEMPOTENCE, natively: running the function again on the result with a fresh `processed` appends no anchor to any glyph
        # (for a first run that started with an empty `processed`: a pre-filled set makes the first run skip glyphs the second one visits)
        "second-run-adds-nothing": "implies(len(old(processed)) == 0, second_run_adds_nothing(glyphSet, composite, categories))",
    },
    canaries={"never-adds": "len(composite.anchors) == len(old(composite.anchors))"},
    locals={"base_components": List(Ref("C15_AComponent")), "mark_components": List(Ref("C15_AComponent")), "anchor_names": Set(STR), "to_add": _AD, "glyph": Ref("C15_Glyph")},
    ghost_vars={"A0": (List(Ref("C15_Anchor")), "composite.anchors"), "AP": (List(Ref("C15_Anchor")), "[]")},
    ghost={"anchor_dict = {'name': name, 'x': x, 'y': y}": ["AP = composite.anchors"]},  # AP: the anchor list just before the next append (snapshot)
    alias_ok=("AP", "A0"),
    hints={
        # one append, step by step: the list grows by one NEW anchor carrying `name`; everything before it stays; so do the earlier new names
        "composite.appendAnchor(anchor_dict)": [
            "len(composite.anchors) == len(AP) + 1 and composite.anchors[len(AP)].name == name",
            "all(composite.anchors[k] == AP[k] for k in range(len(AP)))",
            "all(composite.anchors[k].name in to_add for k in range(len(A0), len(AP)))",
            "name in to_add",
            "all(composite.anchors[k].name in to_add for k in range(len(A0), len(composite.anchors)))",
        ],
        "mark_components.remove(component)": [_PRESENT.format(l="mark_components")],
        # after the promotion of a mark to a base (or without it): every component in either list still has its base in the glyph set
        "if mark_components and (not base_components) and _is_ligature_mark(composite):": [_PRESENT.format(l="mark_components"), _PRESENT.format(l="base_components")],
    },
    loops={
        "for component in composite.components": Loop(
            index="ci",
            invariants={
                "processed": "all(n in processed for n in old(processed)) and composite.name in processed",
                "modified": "all(n in modified for n in old(modified))",
                "untouched": _UNTOUCHED,
                "own-anchors": "composite.anchors == A0",
                "bases-present": _PRESENT.format(l="base_components"),
                "marks-present": _PRESENT.format(l="mark_components"),
            },
        ),
        "for anchor_name in anchor_names": Loop(done="AN", invariants={"no-override": _NO_OVERRIDE}),
        "for component in mark_components": Loop(index="mi", seq="MCS", invariants={"no-override": _NO_OVERRIDE, "marks-present": "all(MCS[k].baseGlyph in glyphSet.glyphs for k in range(len(MCS)))"}),
        "for (name, (x, y)) in sorted(to_add.items())": Loop(
            index="si", seq="KS",
            invariants={
                "appended": "len(composite.anchors) == len(A0) + si",
                "kept": "all(composite.anchors[k] == A0[k] for k in range(len(A0)))",
                "new-names-are-keys": "all(composite.anchors[k].name in to_add for k in range(len(A0), len(composite.anchors)))",
                "no-override": _NO_OVERRIDE,
                "untouched": _UNTOUCHED,
            },
        ),
    },
)


def _pga_cases(rng, n):
    from vcheck.hooks import c15_render as R

    out = []
    for k in range(n):
        desc = R.rand_graph(rng, n_base=3, n_comp=rng.randint(1, 4), depth=3, curves=None, mixed=True, anchors=True)
        names = sorted(desc)
        for g in desc.values():
            if rng.random() < 0.4 and not any(a[0] == "top" for a in g["anchors"]):
                g["anchors"].append(["top", rng.randrange(0, 500) + 0.5, rng.randrange(0, 700)])
            if rng.random() < 0.25:
                g["anchors"].append(["_" + rng.choice(["top", "bottom"]), rng.randrange(0, 300), rng.randrange(0, 300)])
        comps = [n_ for n_ in names if desc[n_]["components"]]
        target = rng.choice(comps or names)
        others = [x for x in names if x != target]
        out.append({"glyphs": desc, "glyph": target, "processed": rng.sample(others, rng.randint(0, len(others))) if rng.random() < 0.4 else [],
                    "already": rng.random() < 0.1, "marks": rng.sample(names, rng.randint(0, 2)), "ufolib": ["ufoLib2", "defcon"][k % 2]})
    return out


def _pga_build(d):
    from types import SimpleNamespace

    f = rtlib.build_ufo({"glyphs": d["glyphs"]}, d["ufolib"])
    gs = {g.name: g for g in f}
    processed = set(d["processed"]) | ({d["glyph"]} if d["already"] else set())
    return {"glyphSet": gs, "composite": gs[d["glyph"]], "processed": processed, "modified": set(), "categories": SimpleNamespace(mark=set(d["marks"]))}


CONTRACTS[_PGA].runtime = Runtime(_pga_cases, _pga_build)
CLASSES["C15_Glyph"].views["components"] = lambda o: list(o.components)

# =====================================================================================================
# PropagateAnchorsFilter.filter: the filter's per-glyph entry point — reports a change iff anchors were appended; through the contract of
# _propagate_glyph_anchors the "never overrides / only appends" statements hold for the filter call itself.

cls("C15_PCtx", fields={"glyphSet": Ref("C15_GlyphSet"), "processed": Set(STR), "modified": Set(STR), "categories": Ref("C15_Categories")},
    notes="PropagateAnchorsFilter.context (glyphSet, processed, modified, categories)")
cls("C15_PFilter", fields={"context": Ref("C15_PCtx")}, notes="PropagateAnchorsFilter instance")
contract(
    "ufo2ft.filters.propagateAnchors:PropagateAnchorsFilter.filter",
    props=["C15"],
    params={"self": Ref("C15_PFilter"), "glyph": Ref("C15_Glyph")},
    returns=BOOL,
    globals={"probe": _PROBE},
    modifies=["C15_PCtx.processed", "C15_PCtx.modified", "C15_Glyph.anchors", "C15_Anchor.x", "C15_Anchor.y"],
    requires=[
        "all(self.context.glyphSet.glyphs[n].name == n for n in self.context.glyphSet.names)",
        "glyph.name in self.context.glyphSet.glyphs and self.context.glyphSet.glyphs[glyph.name] == glyph",
    ],
    ensures={
        "reports-appended-anchors": "result == (len(glyph.anchors) > len(old(glyph.anchors)))",
        "no-components-no-change": "implies(len(old(glyph.components)) == 0, not result and glyph.anchors == old(glyph.anchors))",
        "only-appends": "len(glyph.anchors) >= len(old(glyph.anchors)) and all(glyph.anchors[k] == old(glyph.anchors)[k] for k in range(len(old(glyph.anchors))))",
        "never-overrides": "implies(any(a.name == probe for a in old(glyph.anchors)), all(glyph.anchors[k].name != probe for k in range(len(old(glyph.anchors)), len(glyph.anchors))))",
    },
    canaries={"always-changes": "result"},
)


def _goh_cases(rng, n):
    return [{"origin": k % 5, "cap": rng.choice([700, 701, 650.5]), "xh": rng.choice([500, 499, 480.5]), "ufolib": ["ufoLib2", "defcon"][(k // 5) % 2]} for k in range(n)]


def _goh_build(d):
    f = rtlib.build_ufo({"glyphs": {"a": {"width": 500, "box": [0, 0, 100, 100]}}, "info": {"unitsPerEm": 1000, "capHeight": d["cap"], "xHeight": d["xh"]}}, d["ufolib"])
    flt = _TF(Origin=d["origin"])
    return {"self": flt, "font": f, "origin": flt.options.Origin}


CONTRACTS["ufo2ft.filters.transformations:TransformationsFilter.get_origin_height"].runtime = Runtime(_goh_cases, _goh_build)
