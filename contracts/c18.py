"""C18 — GDEF classes, ligature carets and cursive anchors mirror the UFO data.

Deductive part (pyvc, real ASTs):

  * util.OpenTypeCategories.load                 the five sets hold exactly the lib entries with the five legal values
  * featureWriters.ast.findTable                 first top-level table block of the tag, or None
  * GdefFeatureWriter.setContext                 each of the two parts stays on the to-do list iff the base rule keeps it,
                                                 the user's GDEF block has no such statement (ANY mode), and the data is non-empty
  * GdefFeatureWriter._write (class part)        GlyphClassDef arguments in feaLib's order base, mark, ligature, component,
                                                 each the sorted class of the matching category; user GDEF statements kept
  * featureWriters.ast.makeLookupFlag            (two literal argument shapes used by the curs writer)
  * CursFeatureWriter._makeCursiveLookup         RightToLeft flag cleared iff entry name ends in .LTR, or has no direction
                                                 suffix and the lookup is built for direction "LTR"

Outside the pyvc subset (see notes/C18.requests.md), checked by vcheck/hooks/c18.py on the real functions (bounded):
_sortedGlyphClass, _getLigatureCarets, _getCursiveAnchorPairs, _makeCursiveStatements/_getAnchors, _makeCursiveFeature and the
end-to-end observer reading GlyphClassDef, LigCaretList and EntryExitRecords back from compiled fonts.
"""
import z3

from pyvc import ty as T
from pyvc.api import BOOL, CLASSES, CONTRACTS, INT, SPECFNS, STR, Const, Dict, List, Loop, Named, Opt, Ref, Runtime, Set, Tuple, cls, contract, specfn, trusted
from pyvc.core import Unsupported, Val, lift
from pyvc.ops import is_const
from pyvc.symex import FuncRef

from . import c17
from . import c17_model as M
from . import lib as _lib  # noqa: F401
from .c17_model import FEAFILE, NODE, NS

OTC = Named("OpenTypeCategories", unassigned=Set(STR), base=Set(STR), ligature=Set(STR), mark=Set(STR), component=Set(STR))
LEGAL = ("unassigned", "base", "ligature", "mark", "component")
_CATS = "font.lib.get('public.openTypeCategories', {})"
_K = f"list({_CATS})"

# =====================================================================================================================
# OpenTypeCategories.load


@trusted("c18.OpenTypeCategories", "OpenTypeCategories(u, b, l, m, c) is the named tuple of its five arguments (typing.NamedTuple)")
def _otc_ctor(ex, st, args, kwargs, node):
    if len(args) != 5 or kwargs:
        raise Unsupported("OpenTypeCategories arity", node)
    return Val(OTC, OTC.sort().mk(*[lift(a, Set(STR)) for a in args]))


_OTC_CLS = FuncRef(None, "c18.OpenTypeCategories")


class _Logger:
    """stand-in for a logging.Logger: calls have no effect on program state"""


@M.shim_function("getLogger", "logging.getLogger(name) returns a logger; its methods have no effect on program state")
def _getLogger(ex, st, args, kwargs, node):
    return Val.obj(_Logger)


@M.shim_function("Logger.warning", "Logger.warning(...) has no effect on program state")
def _warning(ex, st, args, kwargs, node):
    return Val.const(None)


_Logger.warning = _warning
_Logger.debug = _warning
import types as _types  # noqa: E402

_LOGGING = _types.ModuleType("c18logging")
_LOGGING.getLogger = _getLogger

# python dict well-formedness that the engine's dict value does not carry: the key list enumerates the whole domain
_DICT_SURJ = f"all(any({_K}[a] == g for a in range(len({_K}))) for g in {_CATS})"


def _cat_clauses(field, value):
    return {
        # a listed glyph with that value is in the set, position by position over the lib dict ...
        f"{field}-complete": f"all(iff({_K}[a] in result.{field}, {_CATS}[{_K}[a]] == '{value}') for a in range(len({_K})))",
        # ... and the set holds nothing else
        f"{field}-sound": f"all(g in {_CATS} and {_CATS}[g] == '{value}' for g in result.{field})",
    }


_LOAD_ENS = {}
for _f, _v in (("unassigned", "unassigned"), ("base", "base"), ("ligature", "ligature"), ("mark", "mark"), ("component", "component")):
    _LOAD_ENS.update(_cat_clauses(_f, _v))


def _load_inv(var, value):
    return {
        f"{var}-c": f"all(iff(KS[a] in {var}, openTypeCategories[KS[a]] == '{value}') for a in range(i))",
        f"{var}-s": f"all(g in openTypeCategories and openTypeCategories[g] == '{value}' for g in {var})",
    }


_LOAD_INV = {}
for _var, _v in (("unassigned", "unassigned"), ("bases", "base"), ("ligatures", "ligature"), ("marks", "mark"), ("components", "component")):
    _LOAD_INV.update(_load_inv(_var, _v))

contract(
    "ufo2ft.util:OpenTypeCategories.load",
    props=["C18"],
    params={"cls": Const(_OTC_CLS), "font": Ref("c17_Font")},
    returns=OTC,
    globals={"logging": Val.obj(_LOGGING), "isinstance": M.ISINSTANCE},
    ensures=_LOAD_ENS,
    canaries={"mark-empty": f"all(g not in result.mark for g in {_CATS})"},
    locals={"unassigned": Set(STR), "bases": Set(STR), "ligatures": Set(STR), "marks": Set(STR), "components": Set(STR), "openTypeCategories": Dict(STR, STR)},
    loops={"for (glyphName, category) in openTypeCategories.items()": Loop(index="i", seq="KS", invariants=_LOAD_INV)},
)

# the same function with NO postcondition (safety and frame only): for callers whose clauses do not concern the categories — the ten quantified
# postconditions above are then not hypotheses of their obligations
contract(
    "ufo2ft.util:OpenTypeCategories.load",
    name="frame",
    props=["C18"],
    params={"cls": Const(_OTC_CLS), "font": Ref("c17_Font")},
    returns=OTC,
    globals={"logging": Val.obj(_LOGGING), "isinstance": M.ISINSTANCE},
    locals={"unassigned": Set(STR), "bases": Set(STR), "ligatures": Set(STR), "marks": Set(STR), "components": Set(STR), "openTypeCategories": Dict(STR, STR)},
    loops={"for (glyphName, category) in openTypeCategories.items()": Loop(index="i", seq="KS", invariants={})},
)

# =====================================================================================================================
# ast.findTable

_ISTAB = "(feaLib.statements[{a}].kind == 'TableBlock' and feaLib.statements[{a}].name == tag)"
contract(
    "ufo2ft.featureWriters.ast:findTable",
    props=["C18"],
    params={"feaLib": Ref(FEAFILE), "tag": STR},
    returns=Opt(Ref(NODE)),
    globals={"ast": M.fea_shim(), "isinstance": M.ISINSTANCE},
    ensures={
        "found-first": f"implies(result is not None, result.kind == 'TableBlock' and result.name == tag and any(feaLib.statements[a] == result"
        f" and all(not {_ISTAB.format(a='b')} for b in range(a)) for a in range(len(feaLib.statements))))",
        "none": f"implies(result is None, all(not {_ISTAB.format(a='a')} for a in range(len(feaLib.statements))))",
        # (the same fact in the form callers use) whichever position holds the first such block, it holds the result
        "first-is-result": f"all(implies({_ISTAB.format(a='a')} and all(not {_ISTAB.format(a='b')} for b in range(a)), result is not None and feaLib.statements[a] == result)"
        " for a in range(len(feaLib.statements)))",
    },
    canaries={"always-none": "result is None"},
    loops={"for statement in feaLib.statements": Loop(index="i", invariants={"none-so-far": f"all(not {_ISTAB.format(a='a')} for a in range(i))"})},
)


# =====================================================================================================================
# GdefFeatureWriter.setContext

G, L = "GlyphClassDefs", "LigatureCarets"
_CARET_KINDS = ("LigatureCaretByIndexStatement", "LigatureCaretByPosStatement")


def _first_gdef(feaFile):
    for s in M.raw(feaFile).statements:
        if type(s).__name__ == "TableBlock" and s.name == "GDEF":
            return s
    return None


def _gdef_has_view(kinds):
    return lambda o: any(type(x).__name__ in kinds for x in (_first_gdef(o).statements if _first_gdef(o) is not None else []))


def _first_gdef_term(ex, st, feaFile):
    """FIRSTGDEF(statements, kind, name): the node `ast.findTable(feaFile, "GDEF")` returns, None being the null node.  The symbol is
    introduced by definition: findTable's PROVED contract (found-first / none / first-is-result) determines that value uniquely as
    the first top-level TableBlock named GDEF; the glue model below equates the contract's result with this symbol."""
    stm = ex.read_field(st, feaFile, "statements").term
    kind = ex.field_array(st, NODE, "kind")
    name = ex.field_array(st, NODE, "name")
    f = z3.Function("c18_firstGDEF", stm.sort(), kind.sort(), name.sort(), T.RefSort)
    return f(stm, kind, name)


def _gdef_has_derived(kinds):
    def d(ex, st, self):
        kind = ex.field_array(st, NODE, "kind")
        sub = ex.field_array(st, NODE, "statements")
        first = _first_gdef_term(ex, st, self)
        k = z3.Int("k!gd")
        inner = z3.Select(sub, first)
        return Val(BOOL, z3.And(z3.Select(kind, first) != z3.StringVal("NoneType"),
                                z3.Exists([k], z3.And(k >= 0, k < z3.Length(inner), z3.Or(*[z3.Select(kind, inner[k]) == z3.StringVal(n) for n in kinds])))))

    return d


CLASSES[FEAFILE].derived.update({"gdefHasClassDef": _gdef_has_derived(("GlyphClassDefStatement",)), "gdefHasCarets": _gdef_has_derived(_CARET_KINDS)})
CLASSES[FEAFILE].views.update({"gdefHasClassDef": _gdef_has_view(("GlyphClassDefStatement",)), "gdefHasCarets": _gdef_has_view(_CARET_KINDS)})

# ---- None as the null node: `if block:` on an optional node ---------------------------------------------------------------
NULL = z3.Const("c18_null_node", T.RefSort)


def _node_truth(ex, st, self):
    return ex.read_field(st, self, "kind").term != z3.StringVal("NoneType")


CLASSES[NODE].truth = _node_truth


@M.shim_function(
    "findTable",
    "glue: ast.findTable called through its CONTRACT; the optional result is represented as a node reference, None being the null node "
    "(kind 'NoneType', falsy; every real node is truthy and has a feaLib class name as kind)",
)
def _findTable_glue(ex, st, args, kwargs, node):
    r = ex.call_contract(CONTRACTS["ufo2ft.featureWriters.ast:findTable"], args, kwargs, st, node)
    s = r.ty.sort()
    kind = ex.field_array(st, NODE, "kind")
    st.assume(z3.Select(kind, NULL) == z3.StringVal("NoneType"))
    st.assume(z3.Implies(s.is_some(r.term), z3.Select(kind, s.val(r.term)) != z3.StringVal("NoneType")))
    # heap well-formedness: the null node and every node a call returns out of the existing AST are allocated objects
    ex.assume_allocated(st, Val(Ref(NODE), NULL))
    ex.assume_allocated(st, Val(Ref(NODE), s.val(r.term)))
    res = z3.If(s.is_some(r.term), s.val(r.term), NULL)
    if is_const(args[1]) and args[1].py == "GDEF":
        st.assume(res == _first_gdef_term(ex, st, args[0]))  # definition of FIRSTGDEF (see _first_gdef_term)
    return Val(Ref(NODE), res)


# ---- summaries of the writer's own data getters (their clauses are checked on the real functions by the hook) ---------
GLYPHSET = Dict(STR, Ref("c18_Glyph"))
cls("c18_Anchor", fields={"name": STR, "x": T.REAL, "y": T.REAL}, notes="glyph anchor")
cls("c18_Glyph", fields={"name": STR, "anchors": List(Ref("c18_Anchor"))}, notes="glyph: name, anchors")


@specfn(GLYPHSET, opaque=True, self=Ref("c17_Writer"))
def c18_ordered_glyphs(self):
    """what self.getOrderedGlyphSet() returns (the exported glyphs in glyph order) — opaque in the logic"""
    return M.raw(self).getOrderedGlyphSet()


@specfn(Dict(STR, List(INT)), opaque=True, self=Ref("c17_Writer"))
def ligature_carets(self):
    """what self._getLigatureCarets() returns — opaque in the logic; its own clause (rounded, increasing, distinct caret
    coordinates per exported glyph) is checked on the real function by the hook"""
    return M.raw(self)._getLigatureCarets()


@specfn(List(STR), opaque=True, self=Ref("c17_Writer"), names=Set(STR))
def c18_sorted_class(self, names):
    """sorted(exported glyph names that are in `names`) — opaque in the logic; natively written independently of _sortedGlyphClass"""
    return sorted(set(M.raw(self).context.orderedGlyphSet.keys()) & set(names))


def _get_ogs(ex, st, self, args, kwargs, node):
    return ex.apply_spec(SPECFNS["c18_ordered_glyphs"], [self], st, node)


def _get_carets(ex, st, self, args, kwargs, node):
    return ex.apply_spec(SPECFNS["ligature_carets"], [self], st, node)


def _sorted_class(ex, st, self, args, kwargs, node):
    return ex.apply_spec(SPECFNS["c18_sorted_class"], [self, args[0]], st, node)


def _get_otc(ex, st, self, args, kwargs, node):
    """self.getOpenTypeCategories() is `OpenTypeCategories.load(self.context.font)`: called through load's CONTRACT"""
    ctx = ex.read_field(st, self, "context")
    font = ex.read_field(st, ctx, "font")
    key = "ufo2ft.util:OpenTypeCategories.load"
    return ex.call_contract(CONTRACTS[ex.c.calls.get(key, key)], [Val.obj(_OTC_CLS), font], {}, st, node)


CLASSES["c17_Writer"].methods.update(
    {"getOrderedGlyphSet": _get_ogs, "_getLigatureCarets": _get_carets, "getOpenTypeCategories": _get_otc, "_sortedGlyphClass": _sorted_class}
)
CLASSES[NS].fields.update({"font": Ref("c17_Font"), "gdefTableBlock": Ref(NODE), "orderedGlyphSet": GLYPHSET, "openTypeCategories": OTC, "ligatureCarets": Dict(STR, List(INT))})


class _Super:
    """stand-in for `super()` inside GdefFeatureWriter: attribute lookup continues in BaseFeatureWriter"""


@M.shim_function("super", "super() inside a method of class C(B): a proxy whose methods are B's, bound to the same self (Python semantics)")
def _super(ex, st, args, kwargs, node):
    return Val.obj(_Super)


@M.shim_function("super.setContext", "super().setContext(...) in GdefFeatureWriter(BaseFeatureWriter) calls BaseFeatureWriter.setContext(self, ...) — through its CONTRACT")
def _super_setContext(ex, st, args, kwargs, node):
    return ex.call_contract(CONTRACTS["ufo2ft.featureWriters.baseFeatureWriter:BaseFeatureWriter.setContext"], [st.env["self"]] + list(args), kwargs, st, node)


_Super.setContext = _super_setContext


@M.shim_function("any", "any(t) for a tuple t of sets: some component is non-empty (Python truthiness)")
def _any(ex, st, args, kwargs, node):
    (v,) = args
    if not isinstance(v.ty, T.Tuple):
        raise Unsupported("any() of a non-tuple", node)
    s = v.ty.sort()
    parts = []
    for i, it in enumerate(v.ty.items):
        if not isinstance(it, T.Set):
            raise Unsupported("any() over a tuple with a non-set component", node)
        parts.append(s.accessor(0, i)(lift(v)) != z3.K(it.elem.sort(), z3.BoolVal(False)))
    return Val(BOOL, z3.Or(*parts))


def _fr(f, name):
    return Val.obj(FuncRef(f, "c17shim." + name))


_GDEF_GLOBALS = {
    "ast": M.fea_shim(findTable=_findTable_glue),
    "isinstance": M.ISINSTANCE,
    "super": _fr(_super, "super"),
    "any": M.native_global(_fr(_any, "any"), any),
}

_BASE = "('{t}' in self.features and (self.mode != 'skip' or '{t}' not in feaFile.featureTags))"
_HAS_DATA = f"any({_CATS.replace('font.', 'font.')}[g] in {LEGAL!r} for g in {_CATS})"

_SC = "ufo2ft.featureWriters.gdefFeatureWriter:GdefFeatureWriter.setContext"
_SC_COMMON = dict(
    props=["C18"],
    params={"self": Ref("c17_Writer"), "font": Ref("c17_Font"), "feaFile": Ref(FEAFILE)},
    returns=Ref(NS),
    globals=_GDEF_GLOBALS,
    # the true frame: the writer gets a new context; the fields below are written on THAT namespace object and on its to-do set
    # (both created by BaseFeatureWriter.setContext, which this function calls first)
    modifies=["c17_Writer.context", "c17_NS.gdefTableBlock", "c17_NS.orderedGlyphSet", "c17_NS.openTypeCategories", "c17_NS.ligatureCarets", "c17_TagSet.todo"],
    requires=[
        "self.insertFeatureMarker is None",  # class attribute of GdefFeatureWriter
        _DICT_SURJ,  # python dict well-formedness (see above)
    ],
    ghost_vars={"TS": (Ref(c17.TAGSET), "self.context.todo"), "S0": (Set(STR), "self.features")},
    ghost={"ctx = super().setContext(font, feaFile, compiler=compiler)": ["TS = ctx.todo", "S0 = ctx.todo.todo"]},
)
_SC_LOOP = "for fea in ctx.gdefTableBlock.statements"
_SC_IF = "if isinstance(fea, ast.GlyphClassDefStatement):"
_SC_INV0 = {"same-set-object": "ctx.todo == TS", "subset": "all(t in S0 for t in TS)"}
# One contract variant per to-do entry (each with the invariant, the hints and the callee postconditions its own clauses need; the equivalence is
# stated as separate implications: each is a small obligation).
# glyph classes are generated iff the base rule allows it, the user's GDEF block defines none (in ANY mode), and some category is set
contract(
    _SC,
    **_SC_COMMON,
    ensures={
        "context": "result == self.context and result.feaFile == feaFile and result.font == font",
        "classdefs-only-if-base": f"implies('{G}' in result.todo, {_BASE.format(t=G)})",
        "classdefs-only-if-user-has-none": f"implies('{G}' in result.todo, not feaFile.gdefHasClassDef)",
        "classdefs-only-if-data": f"implies('{G}' in result.todo, {_HAS_DATA})",
        "classdefs-if": f"implies({_BASE.format(t=G)} and not feaFile.gdefHasClassDef and {_HAS_DATA}, '{G}' in result.todo)",
        "nothing-else": f"all(t in self.features for t in result.todo)",
    },
    canaries={"always-classdefs": f"'{G}' in result.todo"},
    hints={
        "ctx.openTypeCategories = self.getOpenTypeCategories()": [
            # (one set at a time: a member of a non-empty set is a lib key with that legal value, `*-sound` of OpenTypeCategories.load)
            *[f"implies(len(ctx.openTypeCategories.{f}) > 0, {_HAS_DATA})" for f in ("unassigned", "base", "ligature", "mark", "component")],
            f"implies(any(ctx.openTypeCategories), {_HAS_DATA})"],
        "if not any(ctx.openTypeCategories):": [f"implies('{G}' in TS, {_HAS_DATA})"],
        # after the discards of an iteration (before the `break` test): the invariant with statement i taken into account, for the leaving path as well
        _SC_IF: [f"iff('{G}' in TS, '{G}' in S0 and not any(B[a].kind == 'GlyphClassDefStatement' for a in range(i)) and B[i].kind != 'GlyphClassDefStatement')"],
    },
    loops={_SC_LOOP: Loop(index="i", seq="B", invariants={
        **_SC_INV0, "classdefs": f"iff('{G}' in TS, '{G}' in S0 and not any(B[a].kind == 'GlyphClassDefStatement' for a in range(i)))"})},
)
# ligature carets: same, the data being the caret anchors of the exported glyphs (the categories play no role: their loader enters without postconditions)
contract(
    _SC,
    name="carets",
    **_SC_COMMON,
    calls={"ufo2ft.util:OpenTypeCategories.load": "ufo2ft.util:OpenTypeCategories.load#frame"},
    ensures={
        "carets-only-if-base": f"implies('{L}' in result.todo, {_BASE.format(t=L)})",
        "carets-only-if-user-has-none": f"implies('{L}' in result.todo, not feaFile.gdefHasCarets)",
        "carets-only-if-data": f"implies('{L}' in result.todo, ligature_carets(self))",  # a dict: truthy iff non-empty
        "carets-if": f"implies({_BASE.format(t=L)} and not feaFile.gdefHasCarets and ligature_carets(self), '{L}' in result.todo)",
    },
    canaries={"always-carets": f"'{L}' in result.todo"},
    hints={_SC_IF: [f"iff('{L}' in TS, '{L}' in S0 and not any(B[a].kind in {_CARET_KINDS!r} for a in range(i)) and B[i].kind not in {_CARET_KINDS!r})"]},
    loops={_SC_LOOP: Loop(index="i", seq="B", invariants={
        **_SC_INV0, "carets": f"iff('{L}' in TS, '{L}' in S0 and not any(B[a].kind in {_CARET_KINDS!r} for a in range(i)))"})},
)

# =====================================================================================================================
# GdefFeatureWriter._write — the glyph class part

_BLK = "(self.context.gdefTableBlock if self.context.gdefTableBlock else self.context.feaFile.statements[len(self.context.feaFile.statements) - 1])"
_LAST = f"{_BLK}.statements[len({_BLK}.statements) - 1]"
_C = "self.context.openTypeCategories"
_OGSW = "self.context.orderedGlyphSet"
_SGC = "ufo2ft.featureWriters.gdefFeatureWriter:GdefFeatureWriter._sortedGlyphClass"
_WRITE_COMMON = dict(
    props=["C18"],
    params={"self": Ref("c17_Writer")},
    returns=BOOL,
    globals={"ast": M.fea_shim(), "isinstance": M.ISINSTANCE, "fresh": M.NATIVE_FRESH},
    modifies=["c17_Node.statements", "c17_FeaFile.statements"],
    dict_key_positions=False,  # (no clause goes from `n in orderedGlyphSet` to a position; with it z3-5.1 spends its time on 50 000 key-distinctness instances)
    requires=[
        "not fresh(self.context.gdefTableBlock)",  # heap well-formedness: what the context refers to existed before the call
        f"'{G}' in self.context.todo and '{L}' not in self.context.todo",  # this variant covers the class part (carets: hook)
        "implies(self.context.gdefTableBlock, self.context.gdefTableBlock.kind == 'TableBlock')",  # set by setContext from findTable
    ],
)
_CATS = ("base", "mark", "ligature", "component")
# feaLib's GlyphClassDefStatement(baseGlyphs, markGlyphs, ligatureGlyphs, componentGlyphs): each argument is the sorted class of ITS category
# = exactly the exported glyphs of that category, in increasing order.  `_sortedGlyphClass` is called through its CONTRACT (c18gdef.py); the
# membership clauses and the order clauses are two variants (each calls the half of the callee's contract it needs).
contract(
    "ufo2ft.featureWriters.gdefFeatureWriter:GdefFeatureWriter._write",
    name="classdefs",
    **_WRITE_COMMON,
    calls={_SGC + "#c17_Writer": _SGC + "#c17_members"},
    ensures={
        "returns-true": "result",
        "statement-kind": f"{_LAST}.kind == 'GlyphClassDefStatement'",
        **{f"argument-order-{cat}-only": f"all(n in {_OGSW} and n in {_C}.{cat} for n in {_LAST}.{cat}Glyphs.glyphs)" for cat in _CATS},
        # (every exported glyph, by position in the glyph order)
        **{f"argument-order-{cat}-every": f"all(implies(list({_OGSW})[a] in {_C}.{cat}, list({_OGSW})[a] in {_LAST}.{cat}Glyphs.glyphs) for a in range(len(list({_OGSW}))))" for cat in _CATS},
        # additive: a user-written GDEF block keeps its statements, in order, in front of the generated one
        "user-gdef-kept": "implies(self.context.gdefTableBlock, self.context.gdefTableBlock.stmt_ids[:len(self.context.gdefTableBlock.stmt_ids) - 1] == old(self.context.gdefTableBlock.stmt_ids)"
        " and self.context.feaFile.stmt_ids == old(self.context.feaFile.stmt_ids))",
        "new-gdef-appended": "implies(not self.context.gdefTableBlock, self.context.feaFile.stmt_ids[:len(self.context.feaFile.stmt_ids) - 1] == old(self.context.feaFile.stmt_ids)"
        f" and {_BLK}.kind == 'TableBlock' and {_BLK}.name == 'GDEF' and len({_BLK}.statements) == 1)",
    },
    # (the membership facts restated for the statement node while it still has a name: the postconditions then only need "the last statement is that node")
    hints={"gdefTableBlock.statements.append(glyphClassDefs)": [
        f"all(n in {_OGSW} and n in {_C}.{cat} for n in glyphClassDefs.{cat}Glyphs.glyphs)" for cat in _CATS
    ] + [
        f"all(implies(list({_OGSW})[a] in {_C}.{cat}, list({_OGSW})[a] in glyphClassDefs.{cat}Glyphs.glyphs) for a in range(len(list({_OGSW}))))" for cat in _CATS
    ] + [f"{_LAST} == glyphClassDefs"]},
    canaries={"mark-is-second-wrong": f"all(implies(list({_OGSW})[a] in {_C}.ligature, list({_OGSW})[a] in {_LAST}.markGlyphs.glyphs) for a in range(len(list({_OGSW}))))"},
)
contract(
    "ufo2ft.featureWriters.gdefFeatureWriter:GdefFeatureWriter._write",
    name="classdefs-sorted",
    **_WRITE_COMMON,
    calls={_SGC + "#c17_Writer": _SGC + "#c17_order"},
    ensures={
        **{f"argument-order-{cat}-sorted": f"all({_LAST}.{cat}Glyphs.glyphs[k] <= {_LAST}.{cat}Glyphs.glyphs[k + 1] for k in range(len({_LAST}.{cat}Glyphs.glyphs) - 1))"
           for cat in _CATS},
    },
    # (the order facts restated for the statement node while it still has a name: the postconditions then only need "the last statement is that node")
    hints={"gdefTableBlock.statements.append(glyphClassDefs)": [
        f"all(glyphClassDefs.{cat}Glyphs.glyphs[k] <= glyphClassDefs.{cat}Glyphs.glyphs[k + 1] for k in range(len(glyphClassDefs.{cat}Glyphs.glyphs) - 1))" for cat in _CATS
    ] + [f"{_LAST} == glyphClassDefs"]},
    canaries={"strictly": f"all({_LAST}.baseGlyphs.glyphs[k] < {_LAST}.baseGlyphs.glyphs[k + 1] for k in range(len({_LAST}.baseGlyphs.glyphs) - 1))"},
)

# the caret part: one LigatureCaretByPos statement per glyph of the context's caret dict, in its order, after what the block held before
# (to un-park: the attribute `glyphs` is a GlyphName NODE here and a list of names in GlyphClass — it needs a node class of its own for the caret statement)
_LC = "self.context.ligatureCarets"
_KC = f"list({_LC})"
_ST = f"{_BLK}.statements"
_CS_K = f"{_ST}[len({_ST}) - len({_KC}) + k]"
# PARKED (`props=[]`): the engine's encoding of the object-valued comprehension `[ast.LigatureCaretByPosStatement(ast.GlyphName(n), c) for n, c in d.items()]`
# makes every element the SAME new node and records no field of it (notes/C18.requests.md item 14): the element clause below is not provable (and
# nothing about the elements should be trusted).  The three clauses about the block's length and the user's statements are discharged.
contract(
    "ufo2ft.featureWriters.gdefFeatureWriter:GdefFeatureWriter._write",
    name="carets",
    **{**_WRITE_COMMON, "props": [], "requires": [
        "not fresh(self.context.gdefTableBlock)",
        f"'{G}' not in self.context.todo and '{L}' in self.context.todo",
        "implies(self.context.gdefTableBlock, self.context.gdefTableBlock.kind == 'TableBlock')",
    ]},
    locals={"ligatureCarets": List(Ref(NODE))},
    ensures={
        "returns-true": "result",
        # the LAST len(ligatureCarets) statements of the GDEF block: glyph k of the caret dict (in its order) with exactly its caret positions
        "one-statement-per-glyph": f"len({_ST}) >= len({_KC})",
        "caret-statements": f"all({_CS_K}.kind == 'LigatureCaretByPosStatement' and {_CS_K}.glyphs.kind == 'GlyphName' and {_CS_K}.glyphs.glyph == {_KC}[k]"
        f" and {_CS_K}.carets == {_LC}[{_KC}[k]] for k in range(len({_KC})))",
        # additive: a user-written GDEF block keeps its statements, in order, in front
        "user-gdef-kept": f"implies(self.context.gdefTableBlock, len({_ST}) == len(old(self.context.gdefTableBlock.statements)) + len({_KC})"
        " and all(self.context.gdefTableBlock.statements[u] == old(self.context.gdefTableBlock.statements)[u] for u in range(len(old(self.context.gdefTableBlock.statements)))))",
        "new-gdef-appended": f"implies(not self.context.gdefTableBlock, {_BLK}.kind == 'TableBlock' and {_BLK}.name == 'GDEF' and len({_ST}) == len({_KC}))",
    },
    merge_branches=False,
    hints={"gdefTableBlock.statements.extend(ligatureCarets)": [
        f"len(ligatureCarets) == len({_KC})",
        f"all(allocated(ligatureCarets[k]) and ligatureCarets[k].kind == 'LigatureCaretByPosStatement' and ligatureCarets[k].glyphs.kind == 'GlyphName' and ligatureCarets[k].glyphs.glyph == {_KC}[k]"
        f" and ligatureCarets[k].carets == {_LC}[{_KC}[k]] for k in range(len({_KC})))",
        f"all(gdefTableBlock.statements[len(gdefTableBlock.statements) - len({_KC}) + k] == ligatureCarets[k] for k in range(len({_KC})))",
    ]},
    canaries={"no-carets": f"len({_KC}) == 0"},
)

# =====================================================================================================================
# ast.makeLookupFlag (the two literal shapes the curs writer uses) and CursFeatureWriter._makeCursiveLookup


@M.shim_function("reduce", "functools.reduce(f, xs, init) on literal arguments: computed by CPython")
def _reduce(ex, st, args, kwargs, node):
    f, xs, init = args
    if not (is_const(xs) and is_const(init) and f.is_py and isinstance(f.py, FuncRef) and callable(f.py.obj)):
        raise Unsupported("functools.reduce with symbolic arguments", node)
    import functools

    return Val.const(functools.reduce(f.py.obj, xs.py, init.py))


_FUNCTOOLS = _types.ModuleType("c18functools")
_FUNCTOOLS.reduce = _reduce
_FLAG_GLOBALS = {"ast": M.fea_shim(), "isinstance": M.ISINSTANCE, "functools": Val.obj(_FUNCTOOLS)}

for _nm, _flags, _val in (("IgnoreMarks", "IgnoreMarks", 8), ("IgnoreMarks+RightToLeft", ("IgnoreMarks", "RightToLeft"), 9)):
    contract(
        "ufo2ft.featureWriters.ast:makeLookupFlag",
        name=_nm,
        props=["C18"],
        params={"flags": Const(_flags)},
        returns=Ref(NODE),
        globals=_FLAG_GLOBALS,
        ensures={"flag": f"result.kind == 'LookupFlagStatement' and result.value == {_val}"},
        canaries={"zero": "result.value == 0"},
        runtime=Runtime(lambda rng, n: [{}], lambda d, _f=_flags: {"flags": _f}, call=lambda fn, a: M.P(fn(a["flags"]))),
    )


@M.shim_function("makeLookupFlag", "glue: ast.makeLookupFlag(<literal>) dispatched on the literal to the matching CONTRACT variant of the real function")
def _makeLookupFlag_glue(ex, st, args, kwargs, node):
    if len(args) != 1 or kwargs or not is_const(args[0]):
        raise Unsupported("makeLookupFlag with non-literal flags", node)
    key = {"IgnoreMarks": "IgnoreMarks", ("IgnoreMarks", "RightToLeft"): "IgnoreMarks+RightToLeft"}.get(args[0].py)
    if key is None:
        raise Unsupported(f"makeLookupFlag({args[0].py!r}): no contract variant", node)
    return ex.call_contract(CONTRACTS["ufo2ft.featureWriters.ast:makeLookupFlag#" + key], args, kwargs, st, node)


# (`CursFeatureWriter._makeCursiveLookup` is verified in contracts/c18curs.py against the contract of the real `_makeCursiveStatements`; the first-wave
# contract that went through the opaque stand-in `cursive_statements` is gone)


# ---- run-time side ---------------------------------------------------------------------------------------------------


def _font(d):
    import logging

    from . import rtlib

    logging.getLogger("ufo2ft").setLevel(logging.CRITICAL)

    return rtlib.build_ufo(d)


def _load_cases(rng, n):
    names = ["a", "b", "c", "f_i", "acutecomb", "x.comp"]
    vals = list(LEGAL) + ["Mark", "", "bases", "none"]
    out = [{"lib": {}}, {}]
    for _ in range(n - 2):
        k = rng.randint(0, 6)
        out.append({"lib": {"public.openTypeCategories": {nm: rng.choice(vals) for nm in rng.sample(names, k)}}, "glyphs": {nm: {} for nm in names[: rng.randint(0, 6)]}})
    return out


CONTRACTS["ufo2ft.util:OpenTypeCategories.load"].runtime = Runtime(_load_cases, lambda d: {"font": _font(d)}, call=lambda fn, a: fn(a["font"]))

_GDEF_BLOCKS = [
    "",
    "table GDEF {\n    GlyphClassDef [a], , [acutecomb], ;\n} GDEF;\n",
    "table GDEF {\n    LigatureCaretByPos f_i 250;\n} GDEF;\n",
    "table GDEF {\n    LigatureCaretByIndex f_i 1;\n} GDEF;\n",
    "table GDEF {\n    # nothing\n} GDEF;\n",
    "table GDEF {\n    GlyphClassDef [a], , , ;\n    LigatureCaretByPos f_i 250;\n} GDEF;\n",
    "table head {\n    FontRevision 1.1;\n} head;\ntable GDEF {\n    GlyphClassDef [a], , , ;\n} GDEF;\n",
    "table GDEF {\n    # first\n} GDEF;\ntable GDEF {\n    GlyphClassDef [a], , , ;\n} GDEF;\n",
    "feature kern {\n    pos a a 1;\n} kern;\n",
]


def _gdef_cases(rng, n):
    out = []
    for blk in _GDEF_BLOCKS:
        for mode in ("skip", "append"):
            for cats in ({}, {"a": "base", "acutecomb": "mark", "f_i": "ligature"}, {"a": "bogus"}):
                for carets in (False, True):
                    out.append({"fea": blk, "mode": mode, "cats": cats, "carets": carets, "features": rng.choice([None, None, [G], [L]])})
    rng.shuffle(out)
    return out[: max(n, 40)]


def _gdef_ufo(d):
    g = {"a": {"unicodes": [0x61]}, "f_i": {"anchors": [["caret_1", 250, 0]] if d["carets"] else []}, "acutecomb": {"unicodes": [0x301]}}
    return _font({"glyphs": g, "lib": {"public.openTypeCategories": d["cats"]} if d["cats"] else {}})


def _gdef_build(d):
    from ufo2ft.featureWriters import GdefFeatureWriter

    w = GdefFeatureWriter(features=d["features"], mode=d["mode"])
    return {"self": w, "font": _gdef_ufo(d), "feaFile": c17.parse_fea(d["fea"])}


for _k in (_SC, _SC + "#carets"):
    CONTRACTS[_k].runtime = Runtime(_gdef_cases, _gdef_build, call=lambda fn, a: fn(a["self"], a["font"], a["feaFile"]))


def _write_build(d):
    a = _gdef_build(d)
    w = a["self"]
    w.setContext(a["font"], a["feaFile"])
    return {"self": w}


CONTRACTS["ufo2ft.featureWriters.gdefFeatureWriter:GdefFeatureWriter._write#classdefs"].runtime = Runtime(_gdef_cases, _write_build, call=lambda fn, a: fn(a["self"]))


def _table_cases(rng, n):
    return [{"fea": b, "tag": t} for b in _GDEF_BLOCKS for t in ("GDEF", "head", "BASE")]


CONTRACTS["ufo2ft.featureWriters.ast:findTable"].runtime = Runtime(
    _table_cases, lambda d: {"feaLib": c17.parse_fea(d["fea"]), "tag": d["tag"]}, call=lambda fn, a: fn(a["feaLib"], a["tag"])
)


def _lookup_cases(rng, n):
    out = []
    for entry in ("entry", "entry.LTR", "entry.RTL", "entry.1", "entry.x.LTR"):
        for direction in (None, "LTR", "RTL"):
            for anchors in ([], [["a", "entry"]], [["a", "entry"], ["a", "exit"], ["b", "exit"]]):
                out.append({"entry": entry, "direction": direction, "anchors": anchors})
    return out


def _lookup_build(d):
    from ufo2ft.featureWriters import CursFeatureWriter

    entry = d["entry"]
    exit_ = "exit" + entry[5:]
    glyphs = {"a": {"anchors": []}, "b": {"anchors": []}}
    for g, side in d["anchors"]:
        glyphs[g]["anchors"].append([entry if side == "entry" else exit_, 10.4, 20.6])
    ufo = _font({"glyphs": glyphs})
    w = CursFeatureWriter()
    w.setContext(ufo, c17.parse_fea(""))
    return {"self": w, "glyphs": [ufo["a"], ufo["b"]], "entryName": entry, "exitName": exit_, "direction": d["direction"]}



