"""C20 — ast.addLookupReferences for SYMBOLIC lookups / languages: the WHOLE list of appended statements.

The function only constructs feaLib statements and appends them (it never reads, mutates or compares them), so here the statements of the
block are modelled as immutable RECORDS (kind, script, language, include_default, lookup) instead of heap objects; what is appended is then
a sequence equation over two recursive spec functions, which the solvers discharge without quantifier instantiation.
"""
import types as _types

import z3

from pyvc import ty as T
from pyvc.api import BOOL, CLASSES, CONTRACTS, INT, SPECFNS, STR, Const, Dict, List, Loop, Named, Opt, Ref, Runtime, Set, Tuple, cls, contract, lemma, specfn, trusted
from pyvc.core import Unsupported, Val, coerce, lift
from pyvc.symex import FuncRef

from . import c17_model as M
from .c17_model import NODE

STMT = Named("c20_Stmt", kind=STR, script=STR, language=STR, include_default=BOOL, lookup=Opt(Ref(NODE)))
STMTS = List(STMT)


def stmt_record(n):
    """the record of a real feaLib statement (run-time view)"""
    lk = getattr(n, "lookup", None)
    return (type(n).__name__, getattr(n, "script", "") or "", getattr(n, "language", "") or "", bool(getattr(n, "include_default", False)), M.P(lk) if lk is not None else None)


cls("c20_Block", fields={"name": STR, "statements": STMTS}, views={"statements": lambda o: [stmt_record(s) for s in o.statements]},
    notes="a feaLib FeatureBlock whose statements are seen as records (kind, script, language, include_default, lookup): addLookupReferences only constructs and appends them")


CLASSES["c20_Block"].derived["others"] = lambda ex, st, self: Val(Set(Ref("c20_Block")), z3.Lambda([z3.Const("c20_o", T.RefSort)], z3.Const("c20_o", T.RefSort) != lift(self)))
CLASSES["c20_Block"].views["others"] = lambda o: []
_FRAME = "all(x.statements == old(x.statements) for x in feature.others)"


def _mk(kind, script=None, language=None, include_default=None, lookup=None):
    s = STMT.sort()
    return Val(STMT, s.mk(z3.StringVal(kind), lift(script, STR) if script is not None else z3.StringVal(""), lift(language, STR) if language is not None else z3.StringVal(""),
                          lift(include_default, BOOL) if include_default is not None else z3.BoolVal(False), lift(coerce(lookup if lookup is not None else Val.const(None), Opt(Ref(NODE))))))


def _ctor(name, clause, build):
    def f(*a, **k):  # never executed
        raise RuntimeError("model only")

    f.__module__, f.__qualname__, f.__name__ = "c20rec", name, name

    @trusted(f"c20rec.{name}", clause)
    def model(ex, st, args, kwargs, node):
        return build(args, kwargs, node)

    return f


def _lang(args, kwargs, node):
    inc = kwargs.get("include_default", args[1] if len(args) > 1 else Val.const(True))
    if "required" in kwargs or len(args) > 2:
        raise Unsupported("LanguageStatement(required=...)", node)
    return _mk("LanguageStatement", language=args[0], include_default=inc)


_REC = _types.ModuleType("c20rec")
_REC.ScriptStatement = _ctor("ScriptStatement", "feaLib ScriptStatement(script) as the record ('ScriptStatement', script, '', False, None)", lambda a, k, n: _mk("ScriptStatement", script=a[0]))
_REC.LanguageStatement = _ctor("LanguageStatement", "feaLib LanguageStatement(language, include_default=True) as the record ('LanguageStatement', '', language, include_default, None)", _lang)
_REC.LookupReferenceStatement = _ctor("LookupReferenceStatement", "feaLib LookupReferenceStatement(lookup) as the record ('LookupReferenceStatement', '', '', False, lookup)",
                                      lambda a, k, n: _mk("LookupReferenceStatement", lookup=a[0]))


@specfn(STMTS, L=List(Ref(NODE)), k=INT)
def c20_refs(L, k):
    """one `lookup X;` reference per lookup of L[:k], in order"""
    if k <= 0:
        return []
    return c20_refs(L, k - 1) + [("LookupReferenceStatement", "", "", False, L[k - 1])]


@specfn(STMTS, G=List(STR), i=INT)
def c20_langs(G, i):
    """one `language X;` (include_default) per language of G[:i] other than 'dflt', in order"""
    if i <= 0:
        return []
    prev = c20_langs(G, i - 1)
    if G[i - 1] == "dflt":
        return prev
    return prev + [("LanguageStatement", "", G[i - 1], True, None)]


_OLD = "old(feature.statements)"
_HEAD = "[('ScriptStatement', script, '', False, None), ('LanguageStatement', '', 'dflt', True, None)]"

contract(
    "ufo2ft.featureWriters.ast:addLookupReferences",
    name="general",
    props=["C20"],
    params={"feature": Ref("c20_Block"), "lookups": List(Ref(NODE)), "script": STR, "languages": List(STR), "exclude_dflt": Const(False)},
    globals={"ast": Val.obj(_REC)},
    requires=["len(script) > 0", "len(lookups) > 0"],
    modifies=["feature.statements"],
    ensures={
        # the whole result: what was there, `script S; language dflt;`, one reference per lookup, then `language L;` for EVERY other language handed in
        "section-appended": f"feature.statements == {_OLD} + {_HEAD} + c20_refs(lookups, len(lookups)) + c20_langs(languages, len(languages))",
    },
    canaries={"nothing-added": f"feature.statements == {_OLD}"},
    loops={
        "for lookup in lookups#3": Loop(index="k", seq="LS", invariants={"refs": f"feature.statements == {_OLD} + {_HEAD} + c20_refs(LS, k)", "frame": _FRAME}),
        "for language in languages or ()": Loop(index="i", seq="LG", invariants={
            "langs": f"feature.statements == {_OLD} + {_HEAD} + c20_refs(lookups, len(lookups)) + c20_langs(LG, i)", "frame": _FRAME}),
    },
)

contract(
    "ufo2ft.featureWriters.ast:addLookupReferences",
    name="general-no-script",
    props=["C20"],
    params={"feature": Ref("c20_Block"), "lookups": List(Ref(NODE)), "script": Const(None), "languages": Opt(List(STR)), "exclude_dflt": BOOL},
    globals={"ast": Val.obj(_REC)},
    requires=["len(lookups) > 0"],
    modifies=["feature.statements"],
    ensures={
        # without a script: references only -- no script or language statement, whatever `languages` / `exclude_dflt` are
        "references-only": f"feature.statements == {_OLD} + c20_refs(lookups, len(lookups))",
    },
    canaries={"nothing-added": f"feature.statements == {_OLD}"},
    loops={"for lookup in lookups#1": Loop(index="k", seq="LS", invariants={"refs": f"feature.statements == {_OLD} + c20_refs(LS, k)", "frame": _FRAME})},
)


@specfn(STMTS, G=List(STR), L=List(Ref(NODE)), i=INT)
def c20_excl(G, L, i):
    """per language of G[:i]: `language X exclude_dflt;` followed by one reference per lookup of L"""
    if i <= 0:
        return []
    return c20_excl(G, L, i - 1) + [("LanguageStatement", "", G[i - 1], False, None)] + c20_refs(L, len(L))


_LX = "(languages if len(languages) > 0 else ['dflt'])"
contract(
    "ufo2ft.featureWriters.ast:addLookupReferences",
    name="general-exclude-dflt",
    props=["C20"],
    params={"feature": Ref("c20_Block"), "lookups": List(Ref(NODE)), "script": STR, "languages": List(STR), "exclude_dflt": Const(True)},
    globals={"ast": Val.obj(_REC)},
    requires=["len(script) > 0", "len(lookups) > 0"],
    modifies=["feature.statements"],
    ensures={
        "sections-appended": f"feature.statements == {_OLD} + [('ScriptStatement', script, '', False, None)] + c20_excl({_LX}, lookups, len({_LX}))",
    },
    canaries={"nothing-added": f"feature.statements == {_OLD}"},
    loops={
        "for language in languages or ('dflt',)": Loop(index="i", seq="LG", invariants={
            "sections": f"feature.statements == {_OLD} + [('ScriptStatement', script, '', False, None)] + c20_excl(LG, lookups, i)", "frame": _FRAME}),
        "for lookup in lookups#2": Loop(index="k", seq="LS", invariants={
            "refs": f"feature.statements == {_OLD} + [('ScriptStatement', script, '', False, None)] + c20_excl(LG, lookups, i) + [('LanguageStatement', '', LG[i], False, None)] + c20_refs(LS, k)",
            "frame": _FRAME}),
    },
)


# ---- run-time side ---------------------------------------------------------------------------------------------------

_LANGS = [[], ["dflt"], ["TRK "], ["dflt", "TRK ", "AZE "], ["URD ", "dflt"], ["TRK ", "dflt", "TRK "], ["NLD ", "ROM ", "MOL "]]


def _gen(with_script):
    def gen(rng, n):
        out = []
        for langs in _LANGS:
            for nl in (1, 2, 3):
                for pre in (0, 2):
                    out.append({"script": rng.choice(["latn", "arab", "DFLT"]) if with_script else None, "languages": langs, "lookups": nl, "pre": pre})
        rng.shuffle(out)
        return out[:max(n, 12)]

    return gen


def _build(d, exclude):
    from fontTools.feaLib import ast as fa

    f = fa.FeatureBlock("kern")
    for k in range(d["pre"]):
        f.statements.append(fa.Comment(f"# user {k}"))
    return {"feature": f, "lookups": [fa.LookupBlock(f"l{k}") for k in range(d["lookups"])], "script": d["script"], "languages": list(d["languages"]), "exclude_dflt": exclude}


def _call(fn, a):
    return fn(a["feature"], a["lookups"], a["script"], a["languages"], a["exclude_dflt"])


_K = "ufo2ft.featureWriters.ast:addLookupReferences#"
CONTRACTS[_K + "general"].runtime = Runtime(_gen(True), lambda d: _build(d, False), call=_call)
CONTRACTS[_K + "general-exclude-dflt"].runtime = Runtime(_gen(True), lambda d: _build(d, True), call=_call)
CONTRACTS[_K + "general-no-script"].runtime = Runtime(
    _gen(False), lambda d: {**_build(d, bool(len(d["languages"]) % 2)), "languages": list(d["languages"]) or None}, call=_call)
