"""C20 — KernFeatureWriter._registerLookups: WHICH script tags get kerning registered, with WHICH languages.

The function emits statements only through `ast.addLookupReferences` (under contract: contracts/c20_alr.py `#general`, the whole appended section) and
`Comment("")` separators.  Its calls are recorded in the ghost field `feature.calls` (script tag, lookups, languages, the Unicode script being processed,
the offset in feature.statements at which the section starts); the postconditions speak about that trace:
every call is either the DFLT call or the call for an OpenType tag of a kerned Unicode script of the right kind (kern: not dist-enabled, dist:
dist-enabled; never Zyyy/Zinh), and its languages are exactly the languages DECLARED for that tag in the feature file (or ["dflt"] when none is).
What each call appends is the callee's proved equation; the recorded offset `at` says where.  NOT stated here: completeness (every kerned script IS
registered, DFLT whenever a common / LTR / RTL lookup exists) and the content of the lookup lists - those stay with the hook's bounded part.
Branches are merged (default): 45 + 41 obligations; with merge_branches=False the same clauses give 320 + 129 path obligations, all discharged too, but
the run takes 3 min.
"""
import types as _types

import z3

from pyvc import ty as T
from pyvc.api import BOOL, CLASSES, CONTRACTS, INT, SPECFNS, STR, Const, Dict, List, Loop, Named, Opt, Ref, Runtime, Set, Tuple, cls, contract, lemma, specfn, trusted
from pyvc.core import Unsupported, Val, coerce, fresh, fresh_name, lift
from pyvc.symex import FuncRef

from . import c17_model as M
from . import c20_alr as A
from .c17_model import NODE

KFW = "ufo2ft.featureWriters.kernFeatureWriter:KernFeatureWriter"
LKS = List(Ref(NODE))
CALL = Named("c20_Call", script=STR, lookups=LKS, languages=List(STR), loop=BOOL, src=STR, at=INT, ti=INT)
CLASSES["c20_Block"].fields["calls"] = List(CALL)


@specfn(STR, opaque=True, script=STR)
def c20_direction(script):
    """kernFeatureWriter.script_direction(script): 'LTR' / 'RTL' / ... (a function of the Unicode script code)"""
    from ufo2ft.featureWriters.kernFeatureWriter import script_direction

    return script_direction(script)


@specfn(Set(STR), opaque=True)
def c20_dist_scripts():
    """kernFeatureWriter.DIST_ENABLED_SCRIPTS (a module constant: ~90 script codes).  Opaque in the logic: the contract is proved for ANY value of that
    constant, which keeps the 90-element literal out of every term"""
    from ufo2ft.featureWriters.kernFeatureWriter import DIST_ENABLED_SCRIPTS

    return set(DIST_ENABLED_SCRIPTS)


@specfn(List(STR), opaque=True, script=STR)
def c20_ot_tags(script):
    """fontTools.unicodedata.ot_tags_from_script(script): the OpenType script tags of a Unicode script"""
    from fontTools import unicodedata

    return list(unicodedata.ot_tags_from_script(script))


@trusted("c20.script_direction", "CALL-SITE SUMMARY of kernFeatureWriter.script_direction (two lines over fontTools.unicodedata): a function of the script code")
def _dir(ex, st, args, kwargs, node):
    return ex.apply_spec(SPECFNS["c20_direction"], [args[0]], st, node)


def _fn(mod, name, clause, model):
    def f(*a, **k):  # never executed
        raise RuntimeError("model only")

    f.__module__, f.__qualname__, f.__name__ = mod, name, name
    trusted(f"{mod}.{name}", clause)(model)
    return f


def _alr_glue(ex, st, args, kwargs, node):
    """`ast.addLookupReferences(feature, lookups, script, languages)` through its CONTRACT (#general); ghost: the call is appended to feature.calls"""
    feature, lks, script, langs = args
    at = z3.Length(lift(ex.read_field(st, feature, "statements")))
    r = ex.call_contract(CONTRACTS["ufo2ft.featureWriters.ast:addLookupReferences#general"], [feature, lks, script, langs], {}, st, node)
    in_loop = st.env.get("g_loop")
    src = st.env.get("script") if in_loop is not None and in_loop.is_py and in_loop.py is True else None
    # the list value the contract was called with (a dict view has been turned into a list by the engine)
    lv = lks if isinstance(lks.ty, T.List) else ex.apply(Val.obj(FuncRef(list, "builtins.list")), [lks], {}, st, node)
    rec = CALL.sort().mk(lift(script, STR), lift(lv, LKS), lift(langs, List(STR)), z3.BoolVal(src is not None), lift(src, STR) if src is not None else z3.StringVal(""), at,
                         lift(st.env["t"], INT) if src is not None and st.env.get("t") is not None else z3.IntVal(0))
    cur = ex.read_field(st, feature, "calls")
    new = z3.Concat(lift(cur), z3.Unit(rec))
    k = z3.Int(fresh_name("c20_k"))  # position-wise consequences of new == cur ++ [rec] (valid facts)
    st.assume(z3.Length(new) == z3.Length(lift(cur)) + 1)
    st.assume(new[z3.Length(lift(cur))] == rec)
    body = z3.Implies(z3.And(k >= 0, k < z3.Length(lift(cur))), new[k] == lift(cur)[k])
    try:
        st.assume(z3.ForAll([k], body, patterns=[new[k]]))
    except z3.Z3Exception:  # the term cannot serve as a trigger (z3 simplified it to an ite)
        st.assume(z3.ForAll([k], body))
    ex.write_field(st, feature, "calls", Val(cur.ty, new), node)
    return r


_alr_glue.modifies = ["c20_Block.calls", "c20_Block.statements"]

def _tags_model(ex, st, args, kwargs, node):
    r = ex.apply_spec(SPECFNS["c20_ot_tags"], [args[0]], st, node)
    i = z3.Int(fresh_name("c20_ti"))
    st.assume(z3.ForAll([i], z3.Implies(z3.And(i >= 0, i < z3.Length(lift(r))), z3.Length(lift(r)[i]) == 4)))  # OpenType tags have four characters
    return r


_AST = _types.ModuleType("c20rec2")
for _n in ("ScriptStatement", "LanguageStatement", "LookupReferenceStatement"):
    setattr(_AST, _n, getattr(A._REC, _n))
_AST.Comment = A._ctor("Comment", "feaLib Comment(text) as the record ('Comment', '', '', False, None)", lambda a, k, n: A._mk("Comment"))
_AST.addLookupReferences = _fn("c20rec2", "addLookupReferences", "glue, no assumption about ufo2ft: ast.addLookupReferences is called through its CONTRACT "
                               "(contracts/c20_alr.py #general); ghost: the call is recorded in feature.calls", _alr_glue)
_UD = _types.ModuleType("c20unicodedata2")
_UD.ot_tags_from_script = _fn("c20unicodedata2", "ot_tags_from_script", "fontTools.unicodedata.ot_tags_from_script(script) = c20_ot_tags(script): a function of the script; every tag has four characters",
                              _tags_model)

_CALLS = "feature.calls"
_IS_KERN = "(feature.name == 'kern')"


def _call_parts(cq):
    return {
        "dflt-call-only-for-kern": f"implies(not {cq}.loop, {cq}.script == 'DFLT' and {_IS_KERN})",
        "script-is-kerned": f"implies({cq}.loop, {cq}.src in lookups and {cq}.src != 'Zyyy' and {cq}.src != 'Zinh')",
        "kern-or-dist-script": f"implies({cq}.loop, iff({_IS_KERN}, {cq}.src not in c20_dist_scripts()))",
        "tag-of-that-script": f"implies({cq}.loop, 0 <= {cq}.ti and {cq}.ti < len(c20_ot_tags({cq}.src)) and c20_ot_tags({cq}.src)[{cq}.ti] == {cq}.script)",
    }


_LANGS = "{cq}.languages == (feaLanguagesByScript[{cq}.script] if {cq}.script in feaLanguagesByScript else ['dflt'])"

_FRAME = "all(x.statements == old(x.statements) and x.calls == old(x.calls) for x in feature.others)"
_INV = {
    **{nm: f"all({cl} for q in range(len({_CALLS})))" for nm, cl in _call_parts(_CALLS + "[q]").items()},
    "langs": "all(" + _LANGS.format(cq=_CALLS + "[q]") + f" for q in range(len({_CALLS})))",
    "frame": _FRAME,
}

def reg_variant(name, kern, props, extra_requires=()):
  return contract(
    KFW + "._registerLookups",
    name=name,
    props=props,
    params={"feature": Ref("c20_Block"), "lookups": Dict(STR, Dict(STR, Ref(NODE))), "feaLanguagesByScript": Dict(STR, List(STR))},
    globals={"ast": Val.obj(_AST), "script_direction": Val.obj(FuncRef(None, "c20.script_direction")), "unicodedata": Val.obj(_UD),
             "DIST_ENABLED_SCRIPTS": Val(Set(STR), z3.Const("spec_c20_dist_scripts", Set(STR).sort()))},
    requires=["len(feature.calls) == 0", ("feature.name == 'kern'" if kern else "feature.name != 'kern'"), "all(any(True for k in lookups[s]) for s in lookups)", *extra_requires],
    ensures={
        **{nm: f"all({cl} for q in range(len({_CALLS})))" for nm, cl in _call_parts(_CALLS + "[q]").items()},
        "with-exactly-the-declared-languages": "all(" + _LANGS.format(cq=_CALLS + "[q]") + f" for q in range(len({_CALLS})))",
    },
    canaries={"no-call": f"len({_CALLS}) == 0"},
    modifies=["feature.statements", "feature.calls"],
    sorted_axioms=True,
    locals={"dfltLookups": LKS, "lookupsLTR": LKS, "lookupsRTL": LKS, "lookupsForThisScript": Dict(STR, Ref(NODE))},
    loops={
        "for script in sorted(scriptsToReference - DFLT_SCRIPTS)": Loop(index="a", seq="SS", invariants=_INV),
        "for tag in unicodedata.ot_tags_from_script(script)": Loop(index="t", seq="TG", invariants=_INV),
        "for dfltScript in DFLT_SCRIPTS": Loop(unroll=True),
    },
    dict_key_positions=False,  # the key-position Skolem fact of the merged dict derails the solvers on the loop steps
    hints={"lookupsForThisScript.update(lookups[script])": ["all(k in lookupsForThisScript for k in lookups[script])", "len(lookupsForThisScript) > 0"]},
    ghost_vars={"g_loop": (BOOL, "False")},
    ghost=({"scriptsToReference = lookups.keys() - DIST_ENABLED_SCRIPTS": ["g_loop = True"]} if kern else
           {"scriptsToReference = DIST_ENABLED_SCRIPTS.intersection(lookups.keys())": ["g_loop = True"]}),
  )


reg_variant('dist', False, ['C20'])
reg_variant('kern', True, ['C20'])


# ---- run-time side: the real function with `ast.addLookupReferences` / `unicodedata.ot_tags_from_script` wrapped to record the trace -----------
import collections as _collections

_CallT = _collections.namedtuple("c20_Call", "script lookups languages loop src at ti")
CLASSES["c20_Block"].views["calls"] = lambda o: list(getattr(o, "_c20_calls", []))


def traced(feature, invoke):
    """run `invoke()` with ast.addLookupReferences / unicodedata.ot_tags_from_script wrapped so that every call is recorded in feature._c20_calls"""
    import fontTools.unicodedata as ud

    from ufo2ft.featureWriters import ast as uast

    state = {"src": None, "ti": 0, "loop": False}
    real_alr, real_tags = uast.addLookupReferences, ud.ot_tags_from_script

    def tags(script):
        state.update(src=script, ti=0, loop=True)
        return real_tags(script)

    def alr(feat, lookups, script=None, languages=None, exclude_dflt=False):
        lks = list(lookups)
        at = len(feat.statements)
        feat._c20_calls.append(_CallT(script, [M.P(x) for x in lks], list(languages), state["loop"], state["src"] or "", at, state["ti"] if state["loop"] else 0))
        state["ti"] += 1
        return real_alr(feat, lks, script, languages, exclude_dflt)

    uast.addLookupReferences, ud.ot_tags_from_script = alr, tags
    try:
        return invoke()
    finally:
        uast.addLookupReferences, ud.ot_tags_from_script = real_alr, real_tags


def _reg_cases(kern):
    def gen(rng, n):
        scripts = ["Zyyy", "Zinh", "Latn", "Arab", "Grek", "Deva", "Telu", "Khmr"]
        langmaps = [{}, {"latn": ["dflt", "TRK "], "arab": ["URD "]}, {"DFLT": ["dflt"], "latn": ["dflt"], "dev2": ["dflt", "MAR "], "deva": ["dflt"]}, {"khmr": ["dflt"], "tel2": ["TEL "]}]
        out = []
        for _ in range(max(n, 24)):
            out.append({"scripts": {s: rng.randint(1, 2) for s in scripts if rng.random() < 0.45}, "langs": rng.choice(langmaps), "pre": rng.choice([0, 0, 2])})
        return out

    def build(d):
        from fontTools.feaLib import ast as fa

        f = fa.FeatureBlock("kern" if kern else "dist")
        for k in range(d["pre"]):
            f.statements.append(fa.Comment(f"# user {k}"))
        f._c20_calls = []
        lookups = {s: {f"kern_{s}_{i}": fa.LookupBlock(f"kern_{s}_{i}") for i in range(nl)} for s, nl in d["scripts"].items()}
        return {"feature": f, "lookups": lookups, "feaLanguagesByScript": {k: list(v) for k, v in d["langs"].items()}}

    return Runtime(gen, build, call=lambda fn, a: traced(a["feature"], lambda: fn(a["feature"], a["lookups"], a["feaLanguagesByScript"])))


CONTRACTS[KFW + "._registerLookups#kern"].runtime = _reg_cases(True)
CONTRACTS[KFW + "._registerLookups#dist"].runtime = _reg_cases(False)
