"""C20 — KernFeatureWriter._registerLookups: WHICH script tags get kerning registered, with WHICH languages.

The function emits statements only through `ast.addLookupReferences` (under contract: contracts/c20_alr.py `#general`, the whole appended section) and
`Comment("")` separators.  Its calls are recorded in the ghost field `feature.calls` (script tag, lookups, languages, the Unicode script being processed,
the offset in feature.statements at which the section starts); the postconditions speak about that trace:
every call is either the DFLT call or the call for an OpenType tag of a kerned Unicode script of the right kind (kern: not dist-enabled, dist:
dist-enabled; never Zyyy/Zinh), its languages are exactly the languages DECLARED for that tag in the feature file (or ["dflt"] when none is), and the
section stands in feature.statements at the recorded offset.
"""
import types as _types

import z3

from pyvc import ty as T
from pyvc.api import BOOL, CLASSES, CONTRACTS, INT, SPECFNS, STR, Const, Dict, List, Loop, Named, Opt, Ref, Runtime, Set, Tuple, cls, contract, lemma, specfn, trusted
from pyvc.core import Unsupported, Val, coerce, fresh, fresh_name, lift
from pyvc.symex import FuncRef

from . import c17_model as M
from . import c20_alr as A
from .c17_model import NODE

KFW = "ufo2ft.featureWriters.kernFeatureWriter:KernFeatureWriter"
LKS = List(Ref(NODE))
CALL = Named("c20_Call", script=STR, lookups=LKS, languages=List(STR), loop=BOOL, src=STR, at=INT)
CLASSES["c20_Block"].fields["calls"] = List(CALL)


@specfn(STR, opaque=True, script=STR)
def c20_direction(script):
    """kernFeatureWriter.script_direction(script): 'LTR' / 'RTL' / ... (a function of the Unicode script code)"""
    from ufo2ft.featureWriters.kernFeatureWriter import script_direction

    return script_direction(script)


@specfn(List(STR), opaque=True, script=STR)
def c20_ot_tags(script):
    """fontTools.unicodedata.ot_tags_from_script(script): the OpenType script tags of a Unicode script"""
    from fontTools import unicodedata

    return list(unicodedata.ot_tags_from_script(script))


@trusted("c20.script_direction", "CALL-SITE SUMMARY of kernFeatureWriter.script_direction (two lines over fontTools.unicodedata): a function of the script code")
def _dir(ex, st, args, kwargs, node):
    return ex.apply_spec(SPECFNS["c20_direction"], [args[0]], st, node)


def _fn(mod, name, clause, model):
    def f(*a, **k):  # never executed
        raise RuntimeError("model only")

    f.__module__, f.__qualname__, f.__name__ = mod, name, name
    trusted(f"{mod}.{name}", clause)(model)
    return f


def _alr_glue(ex, st, args, kwargs, node):
    """`ast.addLookupReferences(feature, lookups, script, languages)` through its CONTRACT (#general); ghost: the call is appended to feature.calls"""
    feature, lks, script, langs = args
    at = z3.Length(lift(ex.read_field(st, feature, "statements")))
    r = ex.call_contract(CONTRACTS["ufo2ft.featureWriters.ast:addLookupReferences#general"], [feature, lks, script, langs], {}, st, node)
    in_loop = st.env.get("g_loop")
    src = st.env.get("script") if in_loop is not None and in_loop.is_py and in_loop.py is True else None
    # the list value the contract was called with (a dict view has been turned into a list by the engine)
    lv = lks if isinstance(lks.ty, T.List) else ex.apply(Val.obj(FuncRef(list, "builtins.list")), [lks], {}, st, node)
    rec = CALL.sort().mk(lift(script, STR), lift(lv, LKS), lift(langs, List(STR)), z3.BoolVal(src is not None), lift(src, STR) if src is not None else z3.StringVal(""), at)
    cur = ex.read_field(st, feature, "calls")
    ex.write_field(st, feature, "calls", Val(cur.ty, z3.Concat(lift(cur), z3.Unit(rec))), node)
    return r


_alr_glue.modifies = ["c20_Block.calls", "c20_Block.statements"]

def _tags_model(ex, st, args, kwargs, node):
    r = ex.apply_spec(SPECFNS["c20_ot_tags"], [args[0]], st, node)
    i = z3.Int(fresh_name("c20_ti"))
    st.assume(z3.ForAll([i], z3.Implies(z3.And(i >= 0, i < z3.Length(lift(r))), z3.Length(lift(r)[i]) == 4), patterns=[lift(r)[i]]))  # OpenType tags have four characters
    return r


_AST = _types.ModuleType("c20rec2")
for _n in ("ScriptStatement", "LanguageStatement", "LookupReferenceStatement"):
    setattr(_AST, _n, getattr(A._REC, _n))
_AST.Comment = A._ctor("Comment", "feaLib Comment(text) as the record ('Comment', '', '', False, None)", lambda a, k, n: A._mk("Comment"))
_AST.addLookupReferences = _fn("c20rec2", "addLookupReferences", "glue, no assumption about ufo2ft: ast.addLookupReferences is called through its CONTRACT "
                               "(contracts/c20_alr.py #general); ghost: the call is recorded in feature.calls", _alr_glue)
_UD = _types.ModuleType("c20unicodedata2")
_UD.ot_tags_from_script = _fn("c20unicodedata2", "ot_tags_from_script", "fontTools.unicodedata.ot_tags_from_script(script) = c20_ot_tags(script): a function of the script; every tag has four characters",
                              _tags_model)

_CALLS = "feature.calls"
_IS_KERN = "(feature.name == 'kern')"


def _call_ok(cq):
    return (f"ite({cq}.loop, {cq}.src in lookups and {cq}.src != 'Zyyy' and {cq}.src != 'Zinh' and iff({_IS_KERN}, {cq}.src not in DIST_ENABLED_SCRIPTS) and {cq}.script in c20_ot_tags({cq}.src),"
            f" {cq}.script == 'DFLT' and {_IS_KERN})")


_LANGS = "{cq}.languages == (feaLanguagesByScript[{cq}.script] if {cq}.script in feaLanguagesByScript else ['dflt'])"

_FRAME = "all(x.statements == old(x.statements) and x.calls == old(x.calls) for x in feature.others)"
_INV = {
    "ok": f"all({_call_ok(_CALLS + '[q]')} for q in range(len({_CALLS})))",
    "langs": "all(" + _LANGS.format(cq=_CALLS + "[q]") + f" for q in range(len({_CALLS})))",
    "frame": _FRAME,
}

contract(
    KFW + "._registerLookups",
    name="trace",
    # NOT REGISTERED (props=[]): round-3 draft.  With the engine of 2026-10-02 20:00 the whole function executes symbolically (the lazy
    # `extend(g for g in .. if g not in xs)`, dict views, set algebra on keys, sorted(items)), and 189 of its 268 obligations are discharged; the
    # call-site preconditions of addLookupReferences (`len(script) > 0`, `len(lookups) > 0` for the merged dict's values) and the invariant steps
    # of the inner loop time out on 24 unmerged paths (15 min per run), so it is not part of `./check C20`.  See notes/C20.md.
    props=[],
    params={"feature": Ref("c20_Block"), "lookups": Dict(STR, Dict(STR, Ref(NODE))), "feaLanguagesByScript": Dict(STR, List(STR))},
    globals={"ast": Val.obj(_AST), "script_direction": Val.obj(FuncRef(None, "c20.script_direction")), "unicodedata": Val.obj(_UD),
             "DIST_ENABLED_SCRIPTS": __import__("ufo2ft.featureWriters.kernFeatureWriter", fromlist=["x"]).DIST_ENABLED_SCRIPTS},
    requires=["len(feature.calls) == 0", "all(len(lookups[s]) > 0 for s in lookups)", "all(len(t) > 0 for s in lookups for t in c20_ot_tags(s))" if False else "True"],
    ensures={
        "every-registration-is-for-a-kerned-script": f"all({_call_ok(_CALLS + '[q]')} for q in range(len({_CALLS})))",
        "with-exactly-the-declared-languages": "all(" + _LANGS.format(cq=_CALLS + "[q]") + f" for q in range(len({_CALLS})))",
    },
    canaries={"no-call": f"len({_CALLS}) == 0"},
    modifies=["feature.statements", "feature.calls"],
    sorted_axioms=True,
    locals={"dfltLookups": LKS, "lookupsLTR": LKS, "lookupsRTL": LKS, "lookupsForThisScript": Dict(STR, Ref(NODE))},
    loops={
        "for script in sorted(scriptsToReference - DFLT_SCRIPTS)": Loop(index="a", seq="SS", invariants=_INV),
        "for tag in unicodedata.ot_tags_from_script(script)": Loop(index="t", seq="TG", invariants=_INV),
        "for dfltScript in DFLT_SCRIPTS": Loop(unroll=True),
    },
    merge_branches=False,
    ghost_vars={"g_loop": (BOOL, "False")},
    ghost={"scriptsToReference = lookups.keys() - DIST_ENABLED_SCRIPTS": ["g_loop = True"],
           "scriptsToReference = DIST_ENABLED_SCRIPTS.intersection(lookups.keys())": ["g_loop = True"]},
)
