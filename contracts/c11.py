"""C11 — production names rename glyphs and change nothing else."""
from pyvc.api import BOOL, CONTRACTS, INT, STR, Const, Dict, List, Loop, Opt, Ref, Runtime, Set, Tuple, contract, specfn

from . import lib, spec  # noqa: F401


@specfn(STR, name=STR, n=INT)
def suffixed(name, n):
    """name + '.N' with N in decimal"""
    return name + ".%d" % n


contract(
    "ufo2ft.postProcessor:PostProcessor._unique_name",
    props=["C11"],
    params={"name": STR, "seen": Dict(STR, INT)},
    returns=STR,
    modifies=["seen"],
    requires=["all(seen[k] >= 1 for k in seen)"],
    ensures={
        # the name handed out was not handed out before ...
        "fresh": "result not in old(seen)",
        # ... is recorded, so it can never be handed out again ...
        "recorded": "result in seen",
        # ... nothing already recorded is forgotten ...
        "monotone": "all(k in seen for k in old(seen))",
        # ... and it is the requested name, or that name plus a numeric suffix
        "shape": "result == name or any(result == suffixed(name, n) for n in range(1, seen[name]))"
        if False else "implies(name not in old(seen), result == name) and implies(name in old(seen), result == suffixed(name, seen[name] - 1) and seen[name] - 1 >= old(seen)[name])",
        "counters-positive": "all(seen[k] >= 1 for k in seen)",
    },
    canaries={"always-plain": "result == name"},
    loops={
        "while name + '.%d' % n in seen": Loop(
            invariants={
                "n": "n >= seen[name]",
                "taken": "all(suffixed(name, k) in seen for k in range(seen[name], n))",
            }
        )
    },
    locals={"n": INT},
)
