"""C11 — production names rename glyphs and change nothing else.

Functions of Lib/ufo2ft/postProcessor.py under contract here (all inputs unless marked):

* PostProcessor._unique_name            fresh / recorded / monotone / shape / legality preserved
* PostProcessor._build_production_names values pairwise distinct, never equal to a name that is kept, legal
                                        characters only, domain = the glyphs present in the source
* PostProcessor._build_production_name  the WHOLE function: lib entry / uniXXXX-uXXXXX / base.suffix / plain rules as string
                                        clauses, no exception, nothing written (the two ligature rules: run time only)
* PostProcessor.rename_glyphs           `general` (every flavour): new order = old order mapped position-wise, no duplicate,
                                        post.extraNames follow, CFF charset mapped; `cff`: charset + CharStrings re-keyed with
                                        ONE map, charstring objects kept; `frame`: safety + frame incl. the loaded-CFF2 branch
* PostProcessor._rename_glyphs_from_ufo composition (every flavour; `cff`: CFF names == final glyph order, objects kept)
* PostProcessor.set_post_table_format   format written; names refreshed (2.0) / dropped (3.0)
* PostProcessor.process_glyph_names     decision table over (argument, three lib keys, CFF presence), no precondition, and the
                                        typestate clause "the font is reloaded BEFORE it is renamed"; `cff`, `frame` variants
* PostProcessor.__init__, _reloadFont

Class vocabulary (PP* = the objects as the post-processor sees them) is ASSUMED: fontTools' TTFont as
(glyph order, table presence, a `post` table object, CFF table objects, the typestate flag `pristine`), `_reloadFont` as
"returns a fresh, pristine font with the same glyph order and table set", `re.Pattern.sub` for the
class constant GLYPH_NAME_INVALID_CHARS (the character class is read from the REAL class on every run), three str methods.
"""
import re as _re

import z3

from pyvc import ty as T
from pyvc.api import BOOL, CLASSES, CONTRACTS, INT, REAL, STR, Const, Dict, List, Loop, Map, Opt, Ref, Runtime, Set, Tuple, cls, contract, lemma, specfn, trusted
from pyvc.core import PYOBJ, ContractMisfit, Unsupported, Val, fresh, lift
from pyvc.ops import is_const

from . import lib, spec  # noqa: F401

PP = "ufo2ft.postProcessor:PostProcessor"

# =====================================================================================================
# spec vocabulary


@specfn(STR, name=STR, n=INT)
def suffixed(name, n):
    """name + '.N' with N in decimal"""
    return name + ".%d" % n


LEGAL_CHARS = "0123456789abcdefghijklmnopqrstuvwxyzABCDEFGHIJKLMNOPQRSTUVWXYZ_."
_LEGAL_RANGES = (("0", "9"), ("a", "z"), ("A", "Z"), ("_", "_"), (".", "."))
_LEGAL_PY = _re.compile(r"[0-9A-Za-z_.]*\Z")


def _re_star(ranges):
    alts = [z3.Range(a, b) if a != b else z3.Re(a) for a, b in ranges]
    return z3.Star(z3.Union(*alts) if len(alts) > 1 else alts[0])


def legal_chars_only(s):
    """every character of s is one of [0-9A-Za-z_.] (the characters of a PostScript glyph name that
    ufo2ft allows); the empty string counts as legal here (emptiness is a separate matter)"""
    return _LEGAL_PY.match(s) is not None


_legal_p = z3.Function("legal_chars_only", z3.StringSort(), z3.BoolSort())


def _legal_term(s, ranges=_LEGAL_RANGES):
    """s ∈ A* for the alphabet A, pushed through ++ / ite / literals / str.from_int; what remains is an atom
    P_A(t) of an UNINTERPRETED predicate (the solvers' regular-expression engines time out on these VCs, and
    nothing but the rewrites below is ever needed).

    Each rewrite is a theorem of the SMT-LIB theory of strings for P_A(t) := t ∈ A*, whenever A contains the digits:
      (a ++ b) ∈ A*  ⇔  a ∈ A* ∧ b ∈ A*;   ite(c,a,b) ∈ A* ⇔ ite(c, a ∈ A*, b ∈ A*);
      str.from_int(n) ∈ [0-9]* ⊆ A*;        a literal is decided by evaluation.
    Hence every proof from these rules is valid for the intended meaning.  (The concatenation schema is re-proved
    with the real regular expression on every run: lemma C11.legal-concat; the digit schema is the trusted
    semantics of "%d" formatting, conformance-tested in vcheck/hooks/c11.py.)"""
    if z3.is_string_value(s):
        v = s.as_string()
        return z3.BoolVal(all(any(a <= ch <= b for a, b in ranges) for ch in v))
    if z3.is_app(s):
        k = s.decl().kind()
        if k == z3.Z3_OP_SEQ_CONCAT:
            return z3.And(*[_legal_term(c, ranges) for c in s.children()])
        if k == z3.Z3_OP_ITE:
            return z3.If(s.arg(0), _legal_term(s.arg(1), ranges), _legal_term(s.arg(2), ranges))
        if k == z3.Z3_OP_INT_TO_STR and all(any(a <= d <= b for a, b in ranges) for d in "0123456789"):
            return z3.BoolVal(True)
    if frozenset(ranges) == frozenset(_LEGAL_RANGES):
        return _legal_p(s)
    # a different alphabet (the repo's character class was changed): its own predicate, unrelated to `legal`
    nm = "in_star_" + "".join("%02x%02x" % (ord(a), ord(b)) for a, b in sorted(ranges))
    return z3.Function(nm, z3.StringSort(), z3.BoolSort())(s)


@trusted("contracts.c11.legal_chars_only", "DEFINITION (spec vocabulary): legal_chars_only(s) ⇔ s ∈ [0-9A-Za-z_.]*")
def _legal_model(ex, st, args, kwargs, node):
    (s,) = args
    if is_const(s):
        return Val.const(legal_chars_only(s.py))
    return Val(BOOL, _legal_term(lift(ex.deopt(s, st, node), STR)))


@specfn(BOOL, s=STR)
def legal(s):
    """only characters legal in a PostScript glyph name"""
    return legal_chars_only(s)


# =====================================================================================================
# class vocabulary (ASSUMED models of fontTools / ufoLib2 objects as the post-processor uses them)


def _set_of_list(v):
    from pyvc.models import seq_to_set

    return seq_to_set(v)


# ---- glyph set -----------------------------------------------------------------------------------------
cls("PPGlyph", fields={"name": STR, "unicode": Opt(INT)}, notes="source glyph: name, first code point (ufoLib2/defcon Glyph.unicode)")


def _gs_glyphs(ex, st, self):
    return ex.read_field(st, self, "glyphs")


def _gs_keyset(ex, st, self):
    d = _gs_glyphs(ex, st, self)
    return Val(Set(STR), d.ty.sort().dom(d.term))


def _gs_contains(ex, st, self, x):
    d = _gs_glyphs(ex, st, self)
    return z3.Select(d.ty.sort().dom(d.term), lift(x, STR))


def _gs_getitem(ex, st, self, idx, node):
    return ex.getitem(_gs_glyphs(ex, st, self), idx, st, node)


cls(
    "PPGlyphSet",
    fields={"glyphs": Dict(STR, Ref("PPGlyph"))},
    derived={"keyset": _gs_keyset},
    getitem=_gs_getitem,
    contains=_gs_contains,
    views={"keyset": lambda o: set(o.keys())},
    notes="glyph set of the source (dict or Font): name -> glyph; `in`, [] (KeyError when absent)",
)


# ---- the compiled font ---------------------------------------------------------------------------------------
def _order_iter(ex, st, self, args, kwargs, node):
    """getGlyphOrder(): the glyph order list.  Presented to the engine as an iterable that ALSO carries the
    set view of its elements, so that `{n: 1 for n in order if c(n)}` (dict comprehension over a list, not in
    the engine's fragment otherwise) is encoded exactly: domain {x ∈ order | c(x)}, every value 1."""
    from pyvc.stmts import IterInfo

    order = ex.read_field(st, self, "glyphOrder")
    s = order.term
    dt = Dict(STR, INT)
    dom = _set_of_list(order).term
    dterm = dt.sort().mk(dom, z3.K(z3.StringSort(), z3.IntVal(0)), s)
    from pyvc.core import seq_nth

    info = IterInfo(
        "indexed", n=z3.Length(s), item=lambda i: Val(STR, seq_nth(s, i)), seqval=order,
        facts=lambda i: [z3.Select(dom, seq_nth(s, i))],
    )
    info.dict_items = (dt, dterm, "keys")
    return Val(PYOBJ, None, ("iterinfo", info, None), True)


def _set_order(ex, st, self, args, kwargs, node):
    (v,) = args
    from pyvc.core import coerce

    ex.write_field(st, self, "glyphOrder", coerce(v, List(STR)), node)
    return Val.const(None)


_TAGS = {"post": "has_post", "CFF ": "has_CFF", "CFF2": "has_CFF2"}


def _font_has(ex, st, self, tag):
    if not is_const(tag) or tag.py not in _TAGS:
        raise Unsupported(f"PPFont: table tag {tag} is not in the modelled set {sorted(_TAGS)}")
    return ex.read_field(st, self, _TAGS[tag.py]).term


def _font_contains(ex, st, self, x):
    return _font_has(ex, st, self, x)


def _font_getitem(ex, st, self, idx, node):
    if is_const(idx) and idx.py == "post":
        ex.safety(st, _font_has(ex, st, self, idx), "KeyError", node)
        return ex.read_field(st, self, "post")
    if is_const(idx) and idx.py in ("CFF ", "CFF2"):
        ex.safety(st, _font_has(ex, st, self, idx), "KeyError", node)
        return _cff_table(ex, st, self, idx.py == "CFF ")
    idx = ex.deopt(idx, st, node)
    if idx.ty == STR and not idx.is_py:
        # a computed tag (rename_glyphs: `otf[cff_tag]`): one of the two CFF tables; KeyError unless that table is present
        t = lift(idx, STR)
        is1, is2 = t == z3.StringVal("CFF "), t == z3.StringVal("CFF2")
        ex.safety(st, z3.Or(z3.And(is1, _font_has(ex, st, self, Val.const("CFF "))), z3.And(is2, _font_has(ex, st, self, Val.const("CFF2")))), "KeyError", node)
        a, b = _cff_table(ex, st, self, True), _cff_table(ex, st, self, False)
        return Val(Ref("PPCFFTable"), z3.If(is1, a.term, b.term))
    raise Unsupported(f"PPFont[{idx}]: only the 'post', 'CFF ' and 'CFF2' table objects are modelled", node)


def _cff_table(ex, st, self, cff1):
    """the (decompiled) 'CFF ' / 'CFF2' table object of the font.  fontTools: a CFF table holds exactly one font
    (`assert len(self.cff) == 1` in table_C_F_F_.decompile), so `cff.topDictIndex[0]` exists."""
    t = ex.read_field(st, self, "cff_table" if cff1 else "cff2_table")
    tops = ex.read_field(st, ex.read_field(st, t, "cff"), "topDictIndex")
    st.assume(z3.Length(tops.term) >= 1)
    return t


def _font_get(ex, st, self, args, kwargs, node):
    tag = args[0]
    if is_const(tag) and tag.py == "post" and len(args) == 1:
        # Optional table: None when absent.  Returned as the PPPost reference whose truthiness is `present`
        # (the engine has no truthiness for Opt[Ref]); the code only tests `if post:`.  A table object is truthy.
        p = ex.read_field(st, self, "post")
        st.assume(ex.read_field(st, p, "present").term == _font_has(ex, st, self, tag))
        return p
    raise Unsupported("PPFont.get: only get('post')", node)


def _font_isloaded(ex, st, self, args, kwargs, node):
    (tag,) = args
    if is_const(tag):
        if tag.py == "CFF2":
            return ex.read_field(st, self, "CFF2_loaded")
        raise Unsupported("PPFont.isLoaded: only 'CFF2'", node)
    # symbolic Optional tag (the code guards the call with cff_tag == "CFF2")
    t = tag.ty
    if isinstance(t, T.Opt) and t.inner == STR:
        s = t.sort()
        is2 = z3.And(s.is_some(tag.term), s.val(tag.term) == z3.StringVal("CFF2"))
        return Val(BOOL, z3.If(is2, ex.read_field(st, self, "CFF2_loaded").term, fresh(BOOL, "isLoaded")))
    raise Unsupported("PPFont.isLoaded of a computed tag", node)


cls(
    "PPPost",
    fields={"present": BOOL, "formatType": REAL, "extraNames": List(STR), "mapping": Dict(STR, INT), "glyphOrder": Opt(List(STR)),
            "has_extraNames": BOOL, "has_mapping": BOOL},
    has={"extraNames": "has_extraNames", "mapping": "has_mapping"},
    truth=lambda ex, st, v: ex.read_field(st, v, "present").term,
    notes="fontTools 'post' table object: formatType, extraNames, mapping (attributes may be absent: has_*)",
)
cls("PPCharString", notes="a T2CharString object (opaque: only its identity matters here)")
cls("PPCharStrings", fields={"charStrings": Dict(STR, Ref("PPCharString"))}, notes="cffLib CharStrings: charStrings = glyph name -> charstring")
cls("PPTopDict", fields={"CharStrings": Ref("PPCharStrings"), "charset": List(STR)}, notes="cffLib TopDict: CharStrings, charset (glyph names in glyph-index order)")
cls("PPCFFFontSet", fields={"topDictIndex": List(Ref("PPTopDict"))}, notes="cffLib CFFFontSet: topDictIndex")
cls("PPCFFTable", fields={"cff": Ref("PPCFFFontSet")}, notes="fontTools 'CFF ' / 'CFF2' table object: cff")


def _font_cff_top(ex, st, self):
    """the top dict whose names rename_glyphs rewrites: that of the 'CFF ' table when present, else of 'CFF2'"""
    a = ex.read_field(st, ex.read_field(st, ex.read_field(st, self, "cff_table"), "cff"), "topDictIndex")
    b = ex.read_field(st, ex.read_field(st, ex.read_field(st, self, "cff2_table"), "cff"), "topDictIndex")
    from pyvc.core import seq_nth

    return Val(Ref("PPTopDict"), z3.If(ex.read_field(st, self, "has_CFF").term, seq_nth(a.term, z3.IntVal(0)), seq_nth(b.term, z3.IntVal(0))))


def _native_cff_top(o):
    tag = "CFF " if "CFF " in o else "CFF2"
    return o[tag].cff.topDictIndex[0]


cls(
    "PPFont",
    fields={
        "glyphOrder": List(STR), "pristine": BOOL, "has_post": BOOL, "has_CFF": BOOL, "has_CFF2": BOOL, "CFF2_loaded": BOOL,
        "post": Ref("PPPost"), "cff_table": Ref("PPCFFTable"), "cff2_table": Ref("PPCFFTable"),
    },
    derived={"cff_top": _font_cff_top},
    views={"cff_top": _native_cff_top},
    methods={"getGlyphOrder": _order_iter, "setGlyphOrder": _set_order, "get": _font_get, "isLoaded": _font_isloaded},
    contains=_font_contains,
    getitem=_font_getitem,
    notes="fontTools TTFont as the post-processor sees it: glyph order, presence of post/'CFF '/CFF2, the post table object; "
          "`pristine` = typestate 'freshly loaded: no table has been decompiled under the current glyph names'",
)


# ---- GLYPH_NAME_INVALID_CHARS.sub("", s) ----------------------------------------------------------------------
def _survivor_ranges():
    """The characters that survive `GLYPH_NAME_INVALID_CHARS.sub("", s)`, read from the REAL class constant
    (a negated character class `[^...]` of literals and ranges; anything else is outside the model)."""
    import importlib

    pat = importlib.import_module("ufo2ft.postProcessor").PostProcessor.GLYPH_NAME_INVALID_CHARS.pattern
    m = _re.fullmatch(r"\[\^((?:[A-Za-z0-9_.\-]|[A-Za-z0-9]-[A-Za-z0-9])+)\]", pat)
    if not m:
        raise Unsupported(f"GLYPH_NAME_INVALID_CHARS = {pat!r} is not a negated class of literals/ranges")
    body, out, i = m.group(1), [], 0
    while i < len(body):
        if i + 2 < len(body) and body[i + 1] == "-":
            out.append((body[i], body[i + 2]))
            i += 3
        else:
            out.append((body[i], body[i]))
            i += 1
    return tuple(out)


_strip_fn = z3.Function("re_strip_invalid", z3.StringSort(), z3.StringSort())


def _re_sub(ex, st, self, args, kwargs, node):
    repl, s = args
    if not (is_const(repl) and repl.py == ""):
        raise Unsupported("GLYPH_NAME_INVALID_CHARS.sub with a non-empty replacement", node)
    s = ex.deopt(s, st, node)
    if s.ty != STR:
        raise Unsupported(f"GLYPH_NAME_INVALID_CHARS.sub of {s.ty}", node)
    ranges = _survivor_ranges()
    x = lift(s, STR)
    r = _strip_fn(x)
    # result consists of surviving characters only, is s itself when nothing has to go, and is never longer
    st.assume(_legal_term(r, ranges))
    st.assume(z3.Implies(_legal_term(x, ranges), r == x))
    st.assume(z3.Length(r) <= z3.Length(x))
    return Val(STR, r)


cls(
    "PPInvalidRe",
    methods={"sub": _re_sub},
    notes="re.Pattern held in PostProcessor.GLYPH_NAME_INVALID_CHARS: sub('', s) deletes every character matching the class "
          "(result ∈ survivors*, == s if s ∈ survivors*, not longer than s); survivors are parsed from the real pattern",
)


# ---- the post-processor ------------------------------------------------------------------------------------------
def _pp_order(ex, st, self):
    return ex.read_field(st, ex.read_field(st, self, "otf"), "glyphOrder")


def _pp_srcnames(ex, st, self):
    return _gs_keyset(ex, st, ex.read_field(st, self, "glyphSet"))


_prod_fn = z3.Function("production_name_of", T.RefSort, T.RefSort, z3.StringSort())


def _bpn_summary(ex, st, self, args, kwargs, node):
    """ASSUMED summary of PostProcessor._build_production_name for callers (see the module docstring): it returns a
    string that is a function of (self, glyph), raises nothing and has no side effect.  Its functional
    behaviour is proved for the lib-supplied case (contract #lib) and bounded-checked otherwise (hook)."""
    (g,) = args
    return Val(STR, _prod_fn(lift(self), lift(g)))


cls(
    "PostProcessor",
    fields={
        "otf": Ref("PPFont"), "ufo": Ref("PPUfo"), "glyphSet": Ref("PPGlyphSet"), "_postscriptNames": Opt(Dict(STR, STR)),
        "GLYPH_NAME_INVALID_CHARS": Ref("PPInvalidRe"),
    },
    derived={"order": _pp_order, "srcnames": _pp_srcnames},
    views={"order": lambda o: list(o.otf.getGlyphOrder()), "srcnames": lambda o: set(o.glyphSet.keys())},
    methods={"_build_production_name": _bpn_summary},
    repo=PP,
    notes="PostProcessor instance: otf, ufo, glyphSet, _postscriptNames; `order` = otf glyph order, `srcnames` = glyphSet keys",
)

# =====================================================================================================
# _unique_name

contract(
    f"{PP}._unique_name",
    props=["C11"],
    params={"name": STR, "seen": Dict(STR, INT)},
    returns=STR,
    modifies=["seen"],
    # every counter is a positive suffix candidate: holds for the only producer of `seen`
    # (_build_production_names initialises every entry with 1, _unique_name itself stores 1 or n + 1)
    requires=["all(seen[k] >= 1 for k in seen)"],
    ensures={
        # the name handed out was not handed out (or reserved) before ...
        "fresh": "result not in old(seen)",
        # ... is recorded, so it can never be handed out again ...
        "recorded": "result in seen",
        # ... nothing already recorded is forgotten ...
        "monotone": "all(k in seen for k in old(seen))",
        # ... it is the requested name, or that name plus a positive decimal suffix ...
        "shape": "implies(name not in old(seen), result == name) and implies(name in old(seen), result == suffixed(name, seen[name] - 1) and seen[name] - 1 >= old(seen)[name])",
        "prefix": "result == name or result.startswith(name + '.')",
        "counters-positive": "all(seen[k] >= 1 for k in seen)",
        # ... and the suffix never introduces an illegal character
        "legal-preserved": "implies(legal(name), legal(result))",
    },
    canaries={"always-plain": "result == name", "always-legal": "legal(result)"},
    loops={
        "while name + '.%d' % n in seen": Loop(
            invariants={
                "n": "n >= seen[name]",
                "taken": "all(suffixed(name, k) in seen for k in range(seen[name], n))",
            }
        )
    },
    locals={"n": INT},
)


def _un_cases(rng, n):
    bases = ["a", "a.1", "a.2", "a.1.1", "b", "uni0041", ""]
    out = [
        {"name": "alpha", "seen": {"alpha": 1}},
        {"name": "alpha", "seen": {"alpha": 1, "alpha.1": 1}},
        {"name": "alpha.1", "seen": {"alpha": 2, "alpha.1": 1}},
        {"name": "a", "seen": {"a": 3, "a.3": 1, "a.4": 1}},
        {"name": "a", "seen": {}},
    ]
    while len(out) < n:
        seen = {}
        for _ in range(rng.randint(0, 6)):
            seen[rng.choice(bases)] = rng.randint(1, 3)
        out.append({"name": rng.choice(bases), "seen": seen})
    return out[:n]


CONTRACTS[f"{PP}._unique_name"].runtime = Runtime(_un_cases, lambda d: {"name": d["name"], "seen": dict(d["seen"])})


# ---- the rewrite schemata used by `legal` are theorems: re-proved on every run ---------------------------
def legal_chars_only_raw(s):
    return legal_chars_only(s)


@trusted("contracts.c11.legal_chars_only_raw", "DEFINITION: the same predicate as legal_chars_only, encoded as one regular-expression membership (no rewriting)")
def _legal_raw_model(ex, st, args, kwargs, node):
    (s,) = args
    return Val(BOOL, z3.InRe(lift(s, STR), _re_star(_LEGAL_RANGES)))


@specfn(BOOL, s=STR)
def legal_raw(s):
    return legal_chars_only_raw(s)


lemma(
    "C11.legal-concat", props=["C11"], vars={"a": STR, "b": STR},
    hyps=[], concl={"concat": "iff(legal_raw(a + b), legal_raw(a) and legal_raw(b))"},
    canaries={"left-only": "iff(legal_raw(a + b), legal_raw(a))"},
)
# (str.from_int(n) ∈ [0-9]* needs induction on the number of digits: no solver proves it; it is the TRUSTED
# semantics of "%d" formatting, conformance-tested natively in vcheck/hooks/c11.py)


# =====================================================================================================
# _build_production_names

_ORDER = "self.order"
_SRC = "self.srcnames"


def strip_invalid_chars(s):
    """the string without the characters that are illegal in a PostScript glyph name (independent of the repo's regex)"""
    return "".join(ch for ch in s if ch in LEGAL_CHARS)


@trusted("contracts.c11.strip_invalid_chars", "DEFINITION (spec vocabulary): s with every character outside [0-9A-Za-z_.] deleted "
         "(the same uninterpreted symbol the model of GLYPH_NAME_INVALID_CHARS.sub('', s) uses, provided the repo's character class is that alphabet)")
def _strip_model(ex, st, args, kwargs, node):
    (s,) = args
    if frozenset(_survivor_ranges()) != frozenset(_LEGAL_RANGES):
        # the repo deletes a different set of characters: its result is NOT this spec function
        return Val(STR, z3.Function("spec_strip_legal_alphabet", z3.StringSort(), z3.StringSort())(lift(s, STR)))
    return Val(STR, _strip_fn(lift(ex.deopt(s, st, node), STR)))


@specfn(STR, s=STR)
def stripped(s):
    return strip_invalid_chars(s)


class _ProdView:
    def __init__(self, pp):
        self.pp = pp

    def __getitem__(self, n):
        return self.pp._build_production_name(self.pp.glyphSet[n])


def _pp_prod(ex, st, self):
    """name -> what _build_production_name returns for the source glyph of that name (the summary's symbol)"""
    gs = ex.read_field(st, ex.read_field(st, self, "glyphSet"), "glyphs")
    n = z3.Const("n!prod", z3.StringSort())
    return Val(Map(STR, STR), z3.Lambda([n], _prod_fn(lift(self), z3.Select(gs.ty.sort().map(gs.term), n))))


CLASSES["PostProcessor"].derived["prod"] = _pp_prod
CLASSES["PostProcessor"].views["prod"] = _ProdView
# the name a glyph asks for: its sanitised production name, or its sanitised own name when that is over-long (> 63)
_BASE = "(stripped(a) if (self.prod[a] == a or len(stripped(self.prod[a])) > 63) else stripped(self.prod[a]))"
_SHAPE = "({m}[a] == " + _BASE + " or {m}[a].startswith(" + _BASE + " + '.'))"

contract(
    f"{PP}._build_production_names",
    props=["C11"],
    params={"self": Ref("PostProcessor")},
    returns=Dict(STR, STR),
    requires=[],
    ensures={
        # exactly the glyphs of the font that exist in the source are renamed
        "domain": f"all(iff(n in result, n in {_SRC}) for n in {_ORDER}) and all(k in {_SRC} and k in elems({_ORDER}) for k in result)",
        # no two glyphs get the same final name ...
        "unique": "all(all(implies(a != b, result[a] != result[b]) for b in result) for a in result)",
        # ... and no final name collides with the name of a glyph that keeps its name
        "reserved": f"all(all(implies(m not in {_SRC}, result[a] != m) for m in {_ORDER}) for a in result)",
        # only characters legal in a PostScript glyph name
        "legal": "all(legal(result[a]) for a in result)",
        # FINDING: (not registered; see notes/C11.md "Findings") a final name can be EMPTY when every character of the
        # requested name is illegal, e.g. a source glyph named "-" (no code point, no public.postscriptNames):
        # "non-empty": "all(len(result[a]) > 0 for a in result)",
        # every final name is the name the glyph asks for (see _BASE), or that name plus a '.N' disambiguator
        "shape": "all(" + _SHAPE.format(m="result") + " for a in result)",
    },
    canaries={"identity": "all(result[a] == a for a in result)", "nonempty": "len(result) > 0"},
    # (the engine's optional "every key sits at some position of keys()" fact is not needed here and sends z3's sequence
    # solver into a loop on `name in order` goals)
    dict_key_positions=False,
    locals={"seen": Dict(STR, INT), "rename_map": Dict(STR, STR), "valid_name": STR, "prod_name": STR},
    loops={
        "for name in self.otf.getGlyphOrder()": Loop(
            index="i",
            invariants={
                "counters": "all(seen[k] >= 1 for k in seen)",
                "kept-reserved": f"all(implies(m not in {_SRC}, m in seen) for m in {_ORDER})",
                "values-seen": "all(rename_map[a] in seen for a in rename_map)",
                "unique": "all(all(implies(a != b, rename_map[a] != rename_map[b]) for b in rename_map) for a in rename_map)",
                "reserved": f"all(all(implies(m not in {_SRC}, rename_map[a] != m) for m in {_ORDER}) for a in rename_map)",
                "legal": "all(legal(rename_map[a]) for a in rename_map)",
                "keys": f"all(k in {_SRC} and k in elems({_ORDER}) for k in rename_map)",
                "covered": f"all(implies({_ORDER}[b] in {_SRC}, {_ORDER}[b] in rename_map) for b in range(i))",
                "shape": "all(" + _SHAPE.format(m="rename_map") + " for a in rename_map)",
            },
        )
    },
)


# ---- run-time side: real PostProcessor on a real ufoLib2 font and a real (table-less) TTFont -------------------------
_NAME_POOL = [
    "a", "b", "a.alt", "a.sc", "f_i", "f_f_i", "f_i.alt", "a_b.sc", "uni0041", "uni0061", "u1F600", "a-cy", "ka-deva", "ka_ssa-deva",
    "alpha", "alpha.1", "alpha.1.1", "a.1", "A", "Aacute", "x" * 70, "y-" * 35, "_".join(["a-cy"] * 16), "e.fina.alt", "space", "b.a",
    "noUni", "noUni.alt", "emoji", "emoji_a", "T_h", "é", "a b", "a/b", "bmpmax", "supmin", "bmpmax_supmin", "bmpmax.alt",
]
_UNI_POOL = {"a": 0x61, "b": 0x62, "A": 0x41, "Aacute": 0xC1, "a-cy": 0x430, "ka-deva": 0x915, "alpha": 0x3B1, "space": 0x20,
             "emoji": 0x1F600, "bmpmax": 0xFFFF, "supmin": 0x10000, "uni0041": 0xE000, "f": 0x66, "i": 0x69, "T": 0x54, "h": 0x68, "e": 0x65, "é": 0xE9}
_PS_POOL = ["alpha", "alpha", "alpha.1", "uni0041", "a", "", "A-b", "é", "x" * 64, "uni0915094D0937" + ".conjunct" * 6 + "x", "b", "a.alt", ".notdef", "gen1"]


def names_cases(rng, n):
    """Glyph-name sets with suffixes, ligature underscores, collisions with generated uniXXXX names, names > 63
    characters, illegal characters; public.postscriptNames maps with duplicates / empty / illegal / over-long values;
    glyphs of the compiled font that are not in the source (kept names, possibly colliding)."""
    out = [
        # two glyphs mapped to one name, a later glyph literally named like the auto-suffixed one
        {"glyphs": ["first", "second", "alpha.1", "last"], "uni": {"first": 0x3B1}, "ps": {"first": "alpha", "second": "alpha"}, "extra": [".notdef"], "front": True},
        # over-long production name, source name with an illegal character
        {"glyphs": ["a-cy", "ka-deva", "ka_ssa-deva"], "uni": {"a-cy": 0x430, "ka-deva": 0x915}, "ps": {"a-cy": "uni0430", "ka_ssa-deva": "uni0915094D0937" + ".conjunct" * 6 + "x"}, "extra": [], "front": True},
        {"glyphs": ["a-cy", "_".join(["a-cy"] * 16)], "uni": {"a-cy": 0x430}, "ps": None, "extra": [], "front": True},
        # production name colliding with a glyph that is not in the source (keeps its name)
        {"glyphs": ["a", "b"], "uni": {}, "ps": {"a": ".notdef", "b": "gen1"}, "extra": [".notdef", "gen1"], "front": True},
        {"glyphs": ["a", "uni0061"], "uni": {"a": 0x61}, "ps": None, "extra": ["uni0061.1"], "front": False},
        {"glyphs": [], "uni": {}, "ps": {}, "extra": ["x"], "front": True},
        # the BMP boundary of the uniXXXX / uXXXXX rule
        {"glyphs": ["bmpmax", "supmin", "bmpmax_supmin", "bmpmax_bmpmax", "supmin.alt"], "uni": {"bmpmax": 0xFFFF, "supmin": 0x10000}, "ps": None, "extra": [], "front": True},
        # ligatures / suffixes with and without code points, generated uniXXXX colliding with a literal uni name
        {"glyphs": ["f", "i", "f_i", "a", "a.alt", "f_i.alt", "noUni", "noUni.alt", "uni0061", "f_f_i"], "uni": {"f": 0x66, "i": 0x69, "a": 0x61}, "ps": None, "extra": [".notdef"], "front": True},
        {"glyphs": ["f", "i", "f_i", "a", "a.alt", "emoji", "emoji_a", "a_b.sc", "b"], "uni": {"f": 0x66, "i": 0x69, "a": 0x61, "emoji": 0x1F600}, "ps": {"f_i": "fi", "a.alt": "fi", "b": ""}, "extra": [], "front": True},
    ]
    while len(out) < n:
        k = rng.randint(0, 7)
        glyphs = rng.sample(_NAME_POOL, k)
        for base in ("f", "i", "T", "h", "e"):
            if rng.random() < 0.3 and base not in glyphs:
                glyphs.append(base)
        uni = {g: _UNI_POOL[g] for g in glyphs if g in _UNI_POOL and rng.random() < 0.8}
        r = rng.random()
        if r < 0.45:
            ps = None
        elif r < 0.5:
            ps = {}
        else:
            ps = {g: rng.choice(_PS_POOL) for g in glyphs if rng.random() < 0.6}
            if rng.random() < 0.2:
                ps["not-a-glyph"] = "zzz"
        extra = rng.sample([".notdef", "gen1", "alpha.1", "uni0061", "a", "glyph00007", "a.1"], rng.randint(0, 3))
        extra = [e for e in extra if e not in glyphs]
        out.append({"glyphs": glyphs, "uni": uni, "ps": ps, "extra": extra, "front": rng.random() < 0.5})
    return out[:n]


class FakeFont:
    """A glyph-order holder with TTFont's two glyph-order methods (the binary tables are not needed by the name builders)."""

    def __init__(self, order):
        self._order = list(order)

    def getGlyphOrder(self):
        return self._order

    def setGlyphOrder(self, order):
        self._order = list(order)


def build_pp(d, otf=None):
    import ufoLib2
    from fontTools.ttLib import TTFont

    from ufo2ft.postProcessor import PostProcessor

    import logging

    logging.getLogger("ufo2ft.postProcessor").setLevel(logging.ERROR)
    ufo = ufoLib2.Font()
    for g in d["glyphs"]:
        gl = ufo.newGlyph(g)
        if g in d["uni"]:
            gl.unicodes = [d["uni"][g]]
    if d["ps"] is not None:
        ufo.lib["public.postscriptNames"] = dict(d["ps"])
    order = (list(d["extra"]) + list(d["glyphs"])) if d["front"] else (list(d["glyphs"]) + list(d["extra"]))
    if otf is None:
        otf = TTFont()
        otf.setGlyphOrder(order)
    return PostProcessor(otf, ufo)


CONTRACTS[f"{PP}._build_production_names"].runtime = Runtime(names_cases, lambda d: {"self": build_pp(d)}, call=lambda fn, a: fn(a["self"]))


# =====================================================================================================
# string methods the engine does not have (notes/C11.requests.md R4; the engine worker asked for them to live here for now)
from pyvc import models as _models  # noqa: E402

_hex04 = z3.Function("fmt_04X", z3.IntSort(), z3.StringSort())  # the engine's symbol for "%04X" % n: the same library function
_S2 = (z3.StringSort(), z3.StringSort())
_rsplit_head, _rsplit_tail = z3.Function("str_rsplit1_head", *_S2, z3.StringSort()), z3.Function("str_rsplit1_tail", *_S2, z3.StringSort())
_split_head, _split_tail = z3.Function("str_split1_head", *_S2, z3.StringSort()), z3.Function("str_split1_tail", *_S2, z3.StringSort())
_split_all = z3.Function("str_split", *_S2, z3.SeqSort(z3.StringSort()))


def _c11_str_method(ex, st, recv, name, args, kwargs, node):
    """Python semantics of three str methods, for the engine (None = not mine):
    * `"..{}..{:04X}..".format(a, n)`: literal text, `{}` of a str (the str) or an int (its decimal form), `{:04X}` of an int
      (the library function `fmt_04X`, the same symbol the engine uses for `"%04X" % n`; nothing but functionality is known);
    * `s.rsplit(sep, 1)` / `s.split(sep, 1)` (constant non-empty sep): `[s]` when sep does not occur in s, otherwise `[a, b]`
      with `s == a + sep + b` and sep not in b (rsplit: the LAST occurrence) / not in a (split: the FIRST) — a and b are
      functions of (s, sep), so that clauses can name them by writing the same call;
    * `s.split(sep)`: a function of (s, sep) with at least one part; exactly `[s]` when sep does not occur, at least two parts when it does."""
    if kwargs:
        return None
    if name == "format" and is_const(recv) and isinstance(recv.py, str) and ":04X}" in recv.py and not all(is_const(a) for a in args):
        # (templates made of plain '{}' fields are the engine's own business)
        import string

        parts, k = [], 0
        for lit, field, spec, conv in string.Formatter().parse(recv.py):
            if lit:
                parts.append(z3.StringVal(lit))
            if field is None:
                continue
            if field != "" or conv is not None or spec not in ("", "04X") or k >= len(args):
                raise Unsupported(f"str.format template {recv.py!r}: only '{{}}' and '{{:04X}}' fields are modelled", node)
            a = ex.deopt(args[k], st, node)
            k += 1
            if spec == "04X":
                if a.ty != INT:
                    raise Unsupported(f"'{{:04X}}'.format({a.ty})", node)
                parts.append(_hex04(lift(a, INT)))
            elif a.ty == STR:
                parts.append(lift(a, STR))
            elif a.ty == INT and not a.is_py:
                parts.append(z3.IntToStr(lift(a)) if False else ex.to_str(a, node).term)
            else:
                raise Unsupported(f"'{{}}'.format({a.ty})", node)
        if k != len(args):
            raise Unsupported("str.format arity", node)
        return Val(STR, z3.Concat(*parts) if len(parts) > 1 else parts[0]) if parts else Val.const("")
    recv = ex.deopt(recv, st, node)
    if recv.ty == STR and name in ("rsplit", "split") and args and is_const(args[0]) and isinstance(args[0].py, str) and args[0].py and not (is_const(recv) and all(is_const(a) for a in args)):
        s, sep = lift(recv, STR), z3.StringVal(args[0].py)
        has = z3.Contains(s, sep)
        if len(args) == 2 and is_const(args[1]) and args[1].py == 1:
            hf, tf = (_rsplit_head, _rsplit_tail) if name == "rsplit" else (_split_head, _split_tail)
            a, b = hf(s, sep), tf(s, sep)
            st.assume(z3.Implies(has, z3.And(s == z3.Concat(a, sep, b), z3.Not(z3.Contains(b if name == "rsplit" else a, sep)))))
            return Val(List(STR), z3.If(has, z3.Concat(z3.Unit(a), z3.Unit(b)), z3.Unit(s)))
        if len(args) == 1 and name == "split":
            r = _split_all(s, sep)
            st.assume(z3.Length(r) >= 1)
            st.assume(z3.Implies(z3.Not(has), r == z3.Unit(s)))
            st.assume(z3.Implies(has, z3.Length(r) >= 2))
            return Val(List(STR), r)
        raise Unsupported(f"str.{name} with these arguments", node)
    return None


if not getattr(_models.value_method, "_c11_shim", False):
    _engine_value_method = _models.value_method

    def _value_method(ex, st, recv, name, args, kwargs, node):
        if name in ("format", "rsplit", "split"):
            r = _c11_str_method(ex, st, recv, name, args, kwargs, node)
            if r is not None:
                return r
        return _engine_value_method(ex, st, recv, name, args, kwargs, node)

    _value_method._c11_shim = True
    _models.value_method = _value_method


# =====================================================================================================
# _build_production_name: the naming rules, one clause per rule (the whole body is executed: no exception, no side effect)

_NOPS = "(self._postscriptNames is None or len(self._postscriptNames) == 0)"
_GN = "glyph.name"
# "production name + last suffix": the part before the LAST dot names a glyph of the source
_R_SUFFIX = f"('.' in {_GN} and {_GN}.rsplit('.', 1)[0] in self.srcnames)"
# ligature components: a_b_c.sfx -> a.sfx, b.sfx, c.sfx (suffix after the FIRST dot); a_b_c -> a, b, c
_LIGA = f"([n + '.' + {_GN}.split('.', 1)[1] for n in {_GN}.split('.', 1)[0].split('_')] if '.' in {_GN} else {_GN}.split('_'))"
_R_LIGA = f"(len({_LIGA}) > 1 and all(n in self.srcnames for n in {_LIGA}))"
_R_BMP = f"all(self.glyphSet[n].unicode is not None and self.glyphSet[n].unicode != 0 and self.glyphSet[n].unicode <= 0xFFFF for n in {_LIGA})"
_R_BASE = f"{_NOPS} and glyph.unicode is None and not {_R_SUFFIX}"

contract(
    f"{PP}._build_production_name",
    props=["C11"],
    params={"self": Ref("PostProcessor"), "glyph": Ref("PPGlyph")},
    returns=STR,
    merge_branches=False,
    ensures={
        # 1. a non-empty public.postscriptNames: its (non-empty) entry wins, otherwise the glyph keeps its name
        "lib": f"implies(not {_NOPS}, result == (self._postscriptNames[{_GN}] if {_GN} in self._postscriptNames and len(self._postscriptNames[{_GN}]) > 0 else {_GN}))",
        # 2. a code point: uniXXXX in the BMP, uXXXXX.. beyond ("%04X": upper-case hex, at least four digits)
        "uni": f"implies({_NOPS} and glyph.unicode is not None, result == ('u' if glyph.unicode > 0xFFFF else 'uni') + '%04X' % glyph.unicode)",
        # 3. base.suffix with a known base: production name of the base + '.' + the last suffix
        "suffix": f"implies({_NOPS} and glyph.unicode is None and {_R_SUFFIX}, result == self.prod[{_GN}.rsplit('.', 1)[0]] + '.' + {_GN}.rsplit('.', 1)[1])",
        # 4a. ligature of known components that all have BMP code points: a uniXXXX.. name (which digits: run-time clause liga-uni)
        "liga-uni-prefix": f"implies({_R_BASE} and {_R_LIGA} and {_R_BMP}, result.startswith('uni'))",
        # 5. anything else keeps its name
        "plain": f"implies({_R_BASE} and not {_R_LIGA}, result == {_GN})",
    },
    bounded_ensures={
        # 4. ligatures of known components: uniXXXXYYYY when every component has a BMP code point, else the components' production names
        # joined by '_'  (run time only: equality of two `join`s of comprehension-built lists needs sequence extensionality, no solver finds it)
        "liga-uni": f"implies({_R_BASE} and {_R_LIGA} and {_R_BMP}, result == 'uni' + ''.join(['%04X' % self.glyphSet[n].unicode for n in {_LIGA}]))",
        "liga-names": f"implies({_R_BASE} and {_R_LIGA} and not {_R_BMP}, result == '_'.join([self.prod[n] for n in {_LIGA}]))",
    },
    canaries={"always-own-name": f"result == {_GN}", "never-uni": "not result.startswith('uni')"},
)


def _bpn_lib_build(d):
    pp = build_pp(d)
    return [{"self": pp, "glyph": pp.glyphSet[g]} for g in d["glyphs"]]


def _bpn_lib_cases(rng, n):
    out = []
    for d in names_cases(rng, n):
        for k in range(len(d["glyphs"])):
            out.append({**d, "k": k})
    return out[:n]


CONTRACTS[f"{PP}._build_production_name"].runtime = Runtime(
    _bpn_lib_cases, lambda d: _bpn_lib_build(d)[d["k"]], call=lambda fn, a: fn(a["self"], a["glyph"])
)


# =====================================================================================================
# lib / ufo, sfnt reload (ASSUMED library models) and the functions that rename

from fontTools.ttLib.standardGlyphOrder import standardGlyphOrder as _STD  # noqa: E402

from ufo2ft.constants import GLYPHS_DONT_USE_PRODUCTION_NAMES as _K_DONT  # noqa: E402
from ufo2ft.constants import KEEP_GLYPH_NAMES as _K_KEEP  # noqa: E402
from ufo2ft.constants import USE_PRODUCTION_NAMES as _K_USE  # noqa: E402

_LIBKEYS = {_K_KEEP: "keep", _K_USE: "use", _K_DONT: "dont"}


class _StdNames(Val):
    """`standardGlyphOrder` (fontTools: the 258 Macintosh standard glyph names) as the contracts see it: symbolically an
    ARBITRARY set of names (nothing proved here depends on which names are standard; a 258-way case distinction under
    every quantifier is what made these obligations slow), natively the real list.  (Callable, so that the run-time
    clause environment keeps it: symbolic-only globals are dropped there.)"""

    def __call__(self):
        return list(_STD)

    def __contains__(self, x):
        return x in _STD_SET

    def __iter__(self):
        return iter(_STD)


_STD_SET = frozenset(_STD)
_STD_SYM = _StdNames(Set(STR), z3.Const("standardGlyphOrder", Set(STR).sort()))


def _pplib_get(ex, st, self, args, kwargs, node):
    from pyvc import ops

    k = args[0]
    if is_const(k) and k.py == "public.postscriptNames" and len(args) == 1:
        return ex.read_field(st, self, "psnames")
    if not is_const(k) or k.py not in _LIBKEYS:
        raise Unsupported(f"PPLib.get({k}): only the three production-name switches and public.postscriptNames are modelled", node)
    v = ex.read_field(st, self, _LIBKEYS[k.py])
    if len(args) > 1:
        return ops.ite(v.ty.sort().is_some(v.term), Val(BOOL, v.ty.sort().val(v.term)), args[1])
    return v


cls("PPLib", fields={"keep": Opt(BOOL), "use": Opt(BOOL), "dont": Opt(BOOL), "psnames": Opt(Dict(STR, STR))}, methods={"get": _pplib_get},
    notes="ufo.lib restricted to the three switches keepGlyphNames / useProductionNames / Glyphs' \"Don't use Production Names\" (optional plist booleans)")
cls("PPUfo", fields={"lib": Ref("PPLib")}, notes="source UFO: lib")
CLASSES["PPFont"].views["glyphOrder"] = lambda o: list(o.getGlyphOrder())
CLASSES["PPFont"].fields["cfg"] = INT  # opaque configuration handle, only passed along


# ---- BytesIO / TTFont.save / TTFont(stream): the sfnt round trip ---------------------------------------------------
cls("PPStream", fields={"order": List(STR), "names_stored": BOOL, "has_post": BOOL, "has_CFF": BOOL, "has_CFF2": BOOL, "post_format": REAL, "written": BOOL},
    methods={"seek": lambda ex, st, self, a, k, n: Val.const(None)},
    notes="io.BytesIO holding a saved font: what TTFont.save wrote (glyph order, table set, post format)")


@trusted("_io.BytesIO", "BytesIO() is a fresh empty stream")
def _bytesio(ex, st, args, kwargs, node):
    s = ex.new_object(st, "PPStream")
    ex.write_field(st, s, "written", Val.const(False), node)
    return s


def _font_save(ex, st, self, args, kwargs, node):
    (s,) = args
    if not (isinstance(s.ty, T.Ref) and s.ty.cls == "PPStream"):
        raise Unsupported("TTFont.save to something that is not a modelled stream", node)
    post = ex.read_field(st, self, "post")
    hp = _font_has(ex, st, self, Val.const("post"))
    hc = _font_has(ex, st, self, Val.const("CFF "))
    fmt = ex.read_field(st, post, "formatType").term
    for f, v in (("order", ex.read_field(st, self, "glyphOrder")), ("has_post", Val(BOOL, hp)), ("has_CFF", Val(BOOL, hc)),
                 ("has_CFF2", ex.read_field(st, self, "has_CFF2")), ("post_format", Val(REAL, fmt)),
                 # glyph names survive in the file iff a 'CFF ' table or a format 2.0 post table carries them
                 ("names_stored", Val(BOOL, z3.Or(hc, z3.And(hp, fmt == z3.RealVal(2))))), ("written", Val.const(True))):
        ex.write_field(st, s, f, v, node)
    return Val.const(None)


CLASSES["PPFont"].methods["save"] = _font_save


@trusted("fontTools.ttLib.ttFont.TTFont", "TTFont(stream, cfg=...) loads what TTFont.save wrote: a FRESH font object, nothing decompiled yet (pristine, CFF2 not loaded), "
         "same table set, same post format; same glyph order when the file stores glyph names ('CFF ' or post format 2.0), otherwise made-up names of the same count")
def _ttfont_load(ex, st, args, kwargs, node):
    if len(args) != 1 or not (isinstance(args[0].ty, T.Ref) and args[0].ty.cls == "PPStream"):
        raise Unsupported("TTFont(...) other than loading from a modelled stream", node)
    s = args[0]
    ex.safety(st, ex.read_field(st, s, "written").term, "TTLibError", node)
    f = ex.new_object(st, "PPFont")
    p = ex.new_object(st, "PPPost")
    order = ex.read_field(st, s, "order")
    made_up = fresh(List(STR), "madeUpNames")
    st.assume(z3.Length(made_up) == z3.Length(order.term))
    new_order = z3.If(ex.read_field(st, s, "names_stored").term, order.term, made_up)
    for fld, v in (("glyphOrder", Val(List(STR), new_order)), ("pristine", Val.const(True)), ("CFF2_loaded", Val.const(False)),
                   ("has_post", ex.read_field(st, s, "has_post")), ("has_CFF", ex.read_field(st, s, "has_CFF")),
                   ("has_CFF2", ex.read_field(st, s, "has_CFF2")), ("post", p)):
        ex.write_field(st, f, fld, v, node)
    if "cfg" in kwargs:
        ex.write_field(st, f, "cfg", kwargs["cfg"], node)
    ex.write_field(st, p, "formatType", ex.read_field(st, s, "post_format"), node)
    ex.write_field(st, p, "present", ex.read_field(st, s, "has_post"), node)
    # the CFF table objects of the new font (decompiled lazily; what they will show).  fontTools takes the glyph order of a font
    # with a 'CFF ' table FROM that table: the charset is the glyph order, CharStrings are keyed by the charset names.
    for tbl in ("cff_table", "cff2_table"):
        t, fs, top, cs = (ex.new_object(st, c) for c in ("PPCFFTable", "PPCFFFontSet", "PPTopDict", "PPCharStrings"))
        ex.write_field(st, f, tbl, t, node)
        ex.write_field(st, t, "cff", fs, node)
        ex.write_field(st, fs, "topDictIndex", Val(List(Ref("PPTopDict")), z3.Unit(top.term)), node)
        ex.write_field(st, top, "CharStrings", cs, node)
        if tbl == "cff_table":
            hc = ex.read_field(st, s, "has_CFF").term
            charset = fresh(List(STR), "charset")
            st.assume(z3.Implies(hc, charset == new_order))
            ex.write_field(st, top, "charset", Val(List(STR), charset), node)
            dt = Dict(STR, Ref("PPCharString"))
            d = fresh(dt, "charStrings")
            # keys of CharStrings = the names of the glyph order: every position's name is a key, every key sits at a position
            from pyvc.core import fresh_name, seq_nth

            pos = z3.Function(fresh_name("charset_pos"), z3.StringSort(), z3.IntSort())
            k_, n_ = z3.Int(fresh_name("ck")), z3.Const(fresh_name("cn"), z3.StringSort())
            dom = dt.sort().dom(d)
            st.assume(z3.Implies(hc, z3.ForAll([k_], z3.Implies(z3.And(0 <= k_, k_ < z3.Length(new_order)), z3.Select(dom, seq_nth(new_order, k_))))))
            st.assume(z3.Implies(hc, z3.ForAll([n_], z3.Implies(z3.Select(dom, n_), z3.And(0 <= pos(n_), pos(n_) < z3.Length(new_order), seq_nth(new_order, pos(n_)) == n_)))))
            ex.write_field(st, cs, "charStrings", Val(dt, d), node)
    return f


@trusted("builtins.delattr", "delattr(obj, 'name') removes the attribute (hasattr becomes False)")
def _delattr(ex, st, args, kwargs, node):
    o, n = args
    if not is_const(n) or not isinstance(o.ty, T.Ref):
        raise Unsupported("delattr with a computed name", node)
    cs = ex.class_of(o.ty)
    if n.py not in cs.has:
        raise Unsupported(f"delattr({cs.name}, {n.py!r})", node)
    ex.safety(st, ex.read_field(st, o, cs.has[n.py]).term, "AttributeError", node)
    ex.write_field(st, o, cs.has[n.py], Val.const(False), node)
    return Val.const(None)


# "the names stored in the CFF table are the glyph order": charset position by position, CharStrings keys <-> positions
_NAMES_AGREE_T = ("len({top}.charset) == len({order}) and all({top}.charset[k] == {order}[k] for k in range(len({order}))) "
                  "and all(any({order}[k] == n for k in range(len({order}))) for n in {top}.CharStrings.charStrings) "
                  "and all({order}[k] in {top}.CharStrings.charStrings for k in range(len({order})))")

contract(
    "ufo2ft.postProcessor:_reloadFont",
    props=["C11"],
    params={"font": Ref("PPFont")},
    returns=Ref("PPFont"),
    ensures={
        # a new object: whatever held the old names is left behind
        # (not `fresh(result)`: at call sites the engine assumes the returned reference allocated in the very heap
        # that `fresh` refers to, which would make the caller's state inconsistent — notes/C11.requests.md R6)
        "new-object": "result is not font",
        "pristine": "result.pristine and not result.CFF2_loaded",
        "same-tables": "iff('post' in result, 'post' in font) and iff('CFF ' in result, 'CFF ' in font) and iff('CFF2' in result, 'CFF2' in font)",
        "same-post-format": "implies('post' in font, result['post'].formatType == font['post'].formatType)",
        "same-names-when-stored": "implies('CFF ' in font or ('post' in font and font['post'].formatType == 2.0), result.glyphOrder == font.glyphOrder)",
        "same-count": "len(result.glyphOrder) == len(font.glyphOrder)",
        "source-untouched": "font.glyphOrder == old(font.glyphOrder)",
        # a reloaded 'CFF ' font: the names in the CFF table are the glyph order
        "cff-names-agree": "implies('CFF ' in font, " + _NAMES_AGREE_T.format(top="result['CFF '].cff.topDictIndex[0]", order="result.glyphOrder") + ")",
    },
    canaries={"same-object": "result is font"},
)

_EXTRA_SUB = "all(any({o}.glyphOrder[k] == g for k in range(len({o}.glyphOrder))) and g not in standardGlyphOrder for g in {o}['post'].extraNames)"
_EXTRA_SUP = "all(implies(g not in standardGlyphOrder, g in elems({o}['post'].extraNames)) for g in {o}.glyphOrder)"
_POST_FIELDS = ["PPPost.formatType", "PPPost.extraNames", "PPPost.mapping", "PPPost.glyphOrder", "PPPost.has_extraNames", "PPPost.has_mapping"]

contract(
    f"{PP}.set_post_table_format",
    props=["C11"],
    params={"otf": Ref("PPFont"), "formatType": REAL},
    globals={"standardGlyphOrder": _STD_SYM},
    modifies=_POST_FIELDS,
    raises={"NotImplementedError": "formatType != 2.0 and formatType != 3.0"},
    ensures={
        "format": "implies('post' in otf, otf['post'].formatType == formatType)",
        # 2.0: the extra names are exactly the non-standard names of the glyph order; stale name->index map dropped
        "names-2-sub": "implies('post' in otf and formatType == 2.0, " + _EXTRA_SUB.format(o="otf") + ")",
        "names-2-sup": "implies('post' in otf and formatType == 2.0, " + _EXTRA_SUP.format(o="otf") + ")",
        "names-2-map": "implies('post' in otf and formatType == 2.0, len(otf['post'].mapping) == 0)",
        # 3.0: no names are left on the table object
        "names-3": "implies('post' in otf and formatType == 3.0, not hasattr(otf['post'], 'extraNames') and not hasattr(otf['post'], 'mapping') and otf['post'].glyphOrder is None)",
        "order-kept": "otf.glyphOrder == old(otf.glyphOrder)",
    },
    bounded_ensures={"extra-names-in-glyph-order": "implies('post' in otf and formatType == 2.0, otf['post'].extraNames == [g for g in otf.glyphOrder if g not in standardGlyphOrder])"},
    canaries={"always-2": "implies('post' in otf, otf['post'].formatType == 2.0)"},
)

_UNIQ = "all(all(implies(a != b, rename_map[a] != rename_map[b]) for b in rename_map) for a in rename_map)"
_RESV = "all(all(implies(m not in rename_map, rename_map[a] != m) for m in old(otf.glyphOrder)) for a in rename_map)"

_CFF_NAME_FIELDS = ["PPTopDict.charset", "PPCharStrings.charStrings"]
_RENAME_FRAME = ["PPFont.glyphOrder", "PPPost.extraNames", "PPPost.mapping", "PPPost.has_extraNames", "PPPost.has_mapping"] + _CFF_NAME_FIELDS
_CFF2_NOT_LOADED = "('CFF2' not in {o} or not {o}.isLoaded('CFF2'))"
_CHARSET_MAPPED = ("len({t}.charset) == len(old({t}.charset)) and "
                   "all({t}.charset[k] == rename_map.get(old({t}.charset)[k], old({t}.charset)[k]) for k in range(len(old({t}.charset))))")

contract(
    f"{PP}.rename_glyphs",
    name="general",
    props=["C11"],
    params={"otf": Ref("PPFont"), "rename_map": Dict(STR, STR)},
    globals={"standardGlyphOrder": _STD_SYM},
    modifies=_RENAME_FRAME,
    merge_branches=False,
    requires=[
        # typestate, from the comment in process_glyph_names: "We need to reload the font *before* renaming glyphs,
        # since various tables may have been build/loaded using the original glyph names"
        "otf.pristine",
        # ... in particular a CFF2 table has not been decompiled (CFF2 stores no glyph names; a loaded one would be rewritten too)
        _CFF2_NOT_LOADED.format(o="otf"),
    ],
    ensures={
        # TTF, CFF2 and 'CFF ' fonts alike:
        # the new glyph order is the old one with every name passed through the map: same length, same positions
        "mapped": "len(otf.glyphOrder) == len(old(otf.glyphOrder)) and all(otf.glyphOrder[k] == rename_map.get(old(otf.glyphOrder)[k], old(otf.glyphOrder)[k]) for k in range(len(old(otf.glyphOrder))))",
        # an injective map that avoids the names it does not touch cannot create a duplicate glyph name
        "no-duplicates": f"implies(distinct(old(otf.glyphOrder)) and {_UNIQ} and {_RESV}, distinct(otf.glyphOrder))",
        "post-names-sub": "implies('post' in otf and otf['post'].formatType == 2.0, all(any(otf.glyphOrder[k] == g for k in range(len(otf.glyphOrder))) and g not in standardGlyphOrder for g in otf['post'].extraNames))",
        "post-names-sup": "implies('post' in otf and otf['post'].formatType == 2.0, " + _EXTRA_SUP.format(o="otf") + ")",
        "post-names-map": "implies('post' in otf and otf['post'].formatType == 2.0, len(otf['post'].mapping) == 0)",
        "post-format-kept": "implies('post' in otf, otf['post'].formatType == old(otf['post'].formatType))",
        # a 'CFF ' table stores the names itself: its charset goes through the same map, position by position
        "charset-mapped": "implies('CFF ' in otf, " + _CHARSET_MAPPED.format(t="otf.cff_top") + ")",
        "tables-kept": "iff('CFF ' in otf, old('CFF ' in otf)) and iff('CFF2' in otf, old('CFF2' in otf)) and iff('post' in otf, old('post' in otf))",
    },
    bounded_ensures={"extra-names-in-glyph-order": "implies('post' in otf and otf['post'].formatType == 2.0, otf['post'].extraNames == [g for g in otf.glyphOrder if g not in standardGlyphOrder])"},
    canaries={"unchanged": "otf.glyphOrder == old(otf.glyphOrder)"},
)

# ---- the 'CFF ' table: charset and CharStrings are rewritten with ONE map, the charstring objects are the same -------------------
_CFFTOP = "otf['CFF '].cff.topDictIndex[0]"
_CS = f"{_CFFTOP}.CharStrings.charStrings"
_RENAMED = "rename_map.get({n}, {n})"
_INJ_ON_KEYS = f"all(all(implies(a != b, {_RENAMED.format(n='a')} != {_RENAMED.format(n='b')}) for b in old({_CS})) for a in old({_CS}))"

contract(
    f"{PP}.rename_glyphs",
    name="cff",
    props=["C11"],
    params={"otf": Ref("PPFont"), "rename_map": Dict(STR, STR)},
    globals={"standardGlyphOrder": _STD_SYM},
    modifies=_RENAME_FRAME,
    merge_branches=False,
    requires=["otf.pristine", "'CFF ' in otf"],
    ensures={
        "charset-mapped": _CHARSET_MAPPED.format(t=_CFFTOP),
        # the names stored in the CFF follow the glyph order: if they agreed before, they agree afterwards
        "cff-names-follow": f"implies(old(len({_CFFTOP}.charset) == len(otf.glyphOrder) and all({_CFFTOP}.charset[k] == otf.glyphOrder[k] for k in range(len(otf.glyphOrder)))), "
                            f"len({_CFFTOP}.charset) == len(otf.glyphOrder) and all({_CFFTOP}.charset[k] == otf.glyphOrder[k] for k in range(len(otf.glyphOrder))))",
        # CharStrings: the new keys are exactly the images of the old keys ...
        "keys-image": f"all({_RENAMED.format(n='n')} in {_CS} for n in old({_CS}))",
        "keys-only-image": f"all(any(k == {_RENAMED.format(n='n')} for n in old({_CS})) for k in {_CS})",
        # ... and, when no two glyphs get the same name, every charstring OBJECT is found under its glyph's new name (nothing is re-built)
        "charstrings-kept": f"implies({_INJ_ON_KEYS}, all({_CS}[{_RENAMED.format(n='n')}] is old({_CS})[n] for n in old({_CS})))",
    },
    canaries={"same-keys": f"all(n in {_CS} for n in old({_CS}))"},
)


# ---- run-time side for set_post_table_format / rename_glyphs (real TTFont + real post table object) ---------------
_NAME_CARRIERS = {"post", "CFF ", "CFF2", "maxp", "head"}
CLASSES["PPFont"].views["pristine"] = lambda o: set(o.tables) <= _NAME_CARRIERS
CLASSES["PPFont"].views["CFF2_loaded"] = lambda o: o.isLoaded("CFF2")


def build_font(order, post):
    """post: None | {"format": 2.0|3.0, "stale": bool}"""
    from fontTools.ttLib import TTFont, newTable

    otf = TTFont()
    otf.setGlyphOrder(list(order))
    if post is not None:
        t = newTable("post")
        t.formatType = post["format"]
        if post.get("stale"):
            t.extraNames = ["stale"]
            t.mapping = {"stale": 0}
        otf["post"] = t
    return otf


def _spf_cases(rng, n):
    out = []
    for d in names_cases(rng, n):
        order = (d["extra"] + d["glyphs"]) if d["front"] else (d["glyphs"] + d["extra"])
        post = rng.choice([None, {"format": 2.0, "stale": True}, {"format": 3.0, "stale": False}, {"format": 3.0, "stale": True}, {"format": 2.0, "stale": False}])
        out.append({"order": order + rng.sample(["A", "space", "a"], 2), "post": post, "formatType": rng.choice([2.0, 3.0, 3.0, 2.0, 2.0, 3.0, 1.0, 4.0])})
    return out


CONTRACTS[f"{PP}.set_post_table_format"].runtime = Runtime(
    _spf_cases, lambda d: {"otf": build_font(d["order"], d["post"]), "formatType": d["formatType"]}
)


def _rg_cases(rng, n):
    out = []
    for d in names_cases(rng, n):
        order = (d["extra"] + d["glyphs"]) if d["front"] else (d["glyphs"] + d["extra"])
        order = list(dict.fromkeys(order + rng.sample(["A", "space"], 1)))
        r = rng.random()
        if r < 0.5:
            m = build_pp(d)._build_production_names()
        elif r < 0.8:
            m = {g: rng.choice(_PS_POOL + order) for g in order if rng.random() < 0.5}
        else:
            m = {}
        post = rng.choice([None, {"format": 2.0, "stale": True}, {"format": 3.0, "stale": False}, {"format": 2.0, "stale": False}])
        out.append({"order": order, "post": post, "map": m})
    return out


CONTRACTS[f"{PP}.rename_glyphs#general"].runtime = Runtime(
    _rg_cases, lambda d: {"otf": build_font(d["order"], d["post"]), "rename_map": dict(d["map"])}
)


# =====================================================================================================
# _rename_glyphs_from_ufo = _build_production_names ; rename_glyphs       (TTF / CFF2 fonts)


def _proxy_otf(o):
    from pyvc.rt import Proxy

    return Proxy(o.otf, CLASSES["PPFont"])


# run-time evaluation: `self.otf` must itself be seen through the PPFont views (pristine, glyphOrder, ...);
# object identity of the font is compared through `otf_id` (old(...) deep-copies values at run time)
CLASSES["PostProcessor"].views["otf"] = _proxy_otf
CLASSES["PostProcessor"].derived["otf_id"] = lambda ex, st, self: ex.read_field(st, self, "otf")
CLASSES["PostProcessor"].views["otf_id"] = lambda o: id(o.otf)

# what the top-level statement asks of the final glyph order, in terms of the order before renaming (`O`)
_FINAL = {
    # "The final names are unique"
    "final-names-unique": "implies(distinct(old(self.order)), distinct(self.order))",
    "same-glyph-count": "len(self.order) == len(old(self.order))",
    # glyphs that are not in the source keep their names, position by position
    "kept-names": "all(implies(old(self.order)[k] not in self.srcnames, self.order[k] == old(self.order)[k]) for k in range(len(old(self.order))))",
    # every renamed glyph ends up with legal characters only
    "renamed-legal": "all(implies(old(self.order)[k] in self.srcnames, legal(self.order[k])) for k in range(len(old(self.order))))",
}

contract(
    f"{PP}._rename_glyphs_from_ufo",
    props=["C11"],
    params={"self": Ref("PostProcessor")},
    calls={f"{PP}.rename_glyphs": f"{PP}.rename_glyphs#general"},
    modifies=_RENAME_FRAME,
    requires=["self.otf.pristine", _CFF2_NOT_LOADED.format(o="self.otf")],
    ensures={
        **_FINAL,
        "same-font-object": "self.otf_id == old(self.otf_id)",
        "post-format-kept": "implies('post' in self.otf, self.otf['post'].formatType == old(self.otf['post'].formatType))",
    },
    canaries={"nothing-renamed": "self.order == old(self.order)"},
)


def _rgu_build(d):
    pp = build_pp(d)
    order = pp.otf.getGlyphOrder()
    pp.otf = build_font(order, d.get("post"))
    return {"self": pp}


def _rgu_cases(rng, n):
    out = []
    for d in names_cases(rng, n):
        d["post"] = rng.choice([None, {"format": 2.0, "stale": True}, {"format": 2.0, "stale": False}])
        out.append(d)
    return out


CONTRACTS[f"{PP}._rename_glyphs_from_ufo"].runtime = Runtime(_rgu_cases, _rgu_build, call=lambda fn, a: fn(a["self"]))


# =====================================================================================================
# process_glyph_names: decision table + typestate (reload BEFORE rename; reload AFTER dropping names)



def keep_and_use(ufo="self.ufo", arg="useProductionNames", ps="self._postscriptNames"):
    """clause texts of keepGlyphNames / useProductionNames as the statement defines them (argument wins; lib switches
    otherwise), over the given expressions for the source font, the argument and the public.postscriptNames mapping"""

    def get(k, d=""):
        return f"{ufo}.lib.get({k!r}{d})"

    K = f"(True if {arg} is not None else " + get(_K_KEEP, ", True") + ")"
    U = f"({arg} if {arg} is not None else " + get(_K_USE, ", (not " + get(_K_DONT) + f") and {ps} is not None") + ")"
    return K, U


_K, _U = keep_and_use()
_HAS_CFF0 = "old('CFF ' in self.otf)"
_HAS_POST0 = "old('post' in self.otf)"

contract(
    f"{PP}.process_glyph_names",
    props=["C11"],
    params={"self": Ref("PostProcessor"), "useProductionNames": Opt(BOOL)},
    modifies=sorted(set(["PostProcessor.otf"] + _RENAME_FRAME + _POST_FIELDS)),
    merge_branches=False,  # one VC per path: no ite over heaps between "renamed" / "names dropped" / "nothing to do"
    requires=[],
    ensures={
        # --- nothing to rename: the font object and its glyph order are left alone
        "keep-no-rename": f"implies({_K} and not {_U}, self.otf_id == old(self.otf_id) and self.order == old(self.order))",
        # --- rename: on a RELOADED font (typestate; the callee's precondition `pristine` is proved at the call site) ...
        "rename-on-reloaded-font": f"implies({_K} and {_U}, self.otf_id != old(self.otf_id))",
        # ... and the final names are unique / legal / kept where the source has no glyph (names survive the reload through post 2.0)
        # ('CFF ' fonts carry their names through the reload in the CFF table itself)
        **{k: f"implies({_K} and {_U} and ({_HAS_POST0} or {_HAS_CFF0}), {v})" for k, v in _FINAL.items()},
        # --- names kept: TTF/CFF2 store them in a format 2.0 post table
        "post-2-when-kept": f"implies({_K} and not {_HAS_CFF0} and 'post' in self.otf, self.otf['post'].formatType == 2.0)",
        # --- names dropped (TTF/CFF2): post 3.0, THEN reload, so that no table keeps the old names
        "drop-names": f"implies(not {_K} and not {_HAS_CFF0}, self.otf_id != old(self.otf_id) and self.otf.pristine and implies('post' in self.otf, self.otf['post'].formatType == 3.0))",
        # --- names cannot be dropped from CFF 1.0: nothing happens
        "drop-unsupported-cff": f"implies(not {_K} and {_HAS_CFF0}, self.otf_id == old(self.otf_id) and self.order == old(self.order))",
        "same-glyph-count-always": "len(self.order) == len(old(self.order))",
        "same-tables": f"iff('CFF ' in self.otf, {_HAS_CFF0}) and iff('post' in self.otf, {_HAS_POST0}) and iff('CFF2' in self.otf, old('CFF2' in self.otf))",
    },
    canaries={"never-reloads": "self.otf_id == old(self.otf_id)", "always-renames": "self.order != old(self.order)"},
)


def compiled_font(d):
    """A real binary-ready font for the description: OutlineTTFCompiler / OutlineOTFCompiler output (no post-processing yet);
    flavor 'cff2' converts the CFF table with fontTools' convertCFFToCFF2 as process_cff does."""
    import logging

    logging.getLogger("ufo2ft").setLevel(logging.ERROR)
    logging.getLogger("fontTools").setLevel(logging.ERROR)
    from fontTools.cffLib.CFFToCFF2 import convertCFFToCFF2

    from ufo2ft.outlineCompiler import OutlineOTFCompiler, OutlineTTFCompiler
    from ufo2ft.postProcessor import PostProcessor

    ufo = build_pp(d, otf=FakeFont([])).ufo
    for k, v in (d.get("lib") or {}).items():
        ufo.lib[k] = v
    flavor = d.get("flavor", "ttf")
    otf = (OutlineTTFCompiler if flavor == "ttf" else OutlineOTFCompiler)(ufo).compile()
    if flavor == "cff2":
        convertCFFToCFF2(otf)
    return PostProcessor(otf, ufo)


def _pgn_cases(rng, n):
    out = []
    for d in names_cases(rng, 4 * n):
        if any(ord(ch) > 126 for g in d["glyphs"] for ch in g):
            continue
        lib = {}
        if rng.random() < 0.4:
            lib[_K_KEEP] = rng.random() < 0.5
        if rng.random() < 0.4:
            lib[_K_USE] = rng.random() < 0.5
        if rng.random() < 0.3:
            lib[_K_DONT] = rng.random() < 0.6
        d.update(lib=lib, flavor=rng.choice(["ttf", "ttf", "cff2", "cff"]), arg=rng.choice([None, None, True, False]))
        out.append(d)
        if len(out) >= n:
            break
    return out


CONTRACTS[f"{PP}.process_glyph_names"].runtime = Runtime(
    _pgn_cases, lambda d: {"self": compiled_font(d), "useProductionNames": d["arg"]}, call=lambda fn, a: fn(a["self"], a["useProductionNames"])
)


# =====================================================================================================
# Frame variants (all flavours; the typestate `pristine` is the only precondition): what the glyph-name step may touch, and the decision table.
# The functional clauses above are proved for fonts without a decompiled CFF table only (the computed-key dict
# comprehension of rename_glyphs' CFF branch derails the solvers, notes/C11.md).  These variants execute the SAME bodies,
# CFF branch included, for their safety obligations (no KeyError / IndexError / AttributeError) and their frame: only the
# glyph order, the post table's name fields and the CFF charset / CharStrings keys are written; the table SET, and
# everything else reachable from the font, is left alone.  (C12 composes `process` from this: the name step calls none of
# the CFF libraries and keeps the CFF flavour.)
contract(
    f"{PP}.rename_glyphs",
    name="frame",
    props=["C11", "C12"],
    params={"otf": Ref("PPFont"), "rename_map": Dict(STR, STR)},
    globals={"standardGlyphOrder": _STD_SYM},
    modifies=_RENAME_FRAME,
    merge_branches=False,
    # the typestate only ("reload BEFORE renaming"): no condition on the flavour
    requires=["otf.pristine"],
    ensures={"tables-kept": "iff('CFF ' in otf, old('CFF ' in otf)) and iff('CFF2' in otf, old('CFF2' in otf)) and iff('post' in otf, old('post' in otf))"},
    canaries={"unchanged": "otf.glyphOrder == old(otf.glyphOrder)"},
)
contract(
    f"{PP}._rename_glyphs_from_ufo",
    name="frame",
    props=["C11", "C12"],
    params={"self": Ref("PostProcessor")},
    calls={f"{PP}.rename_glyphs": f"{PP}.rename_glyphs#frame"},
    modifies=_RENAME_FRAME,
    requires=["self.otf.pristine"],
    ensures={"same-font-object": "self.otf_id == old(self.otf_id)",
             "tables-kept": "iff('CFF ' in self.otf, old('CFF ' in self.otf)) and iff('CFF2' in self.otf, old('CFF2' in self.otf)) and iff('post' in self.otf, old('post' in self.otf))"},
    canaries={"nothing-renamed": "self.order == old(self.order)"},
)
contract(
    f"{PP}.process_glyph_names",
    name="frame",
    props=["C11", "C12"],
    params={"self": Ref("PostProcessor"), "useProductionNames": Opt(BOOL)},
    calls={f"{PP}._rename_glyphs_from_ufo": f"{PP}._rename_glyphs_from_ufo#frame"},
    modifies=sorted(set(["PostProcessor.otf"] + _RENAME_FRAME + _POST_FIELDS)),
    ensures={
        # whatever the switches say and whatever the flavour: the table set is the one at entry
        "same-tables": f"iff('CFF ' in self.otf, {_HAS_CFF0}) and iff('post' in self.otf, {_HAS_POST0}) and iff('CFF2' in self.otf, old('CFF2' in self.otf))",
        # the decision table of the functional contract, as far as it does not speak about the new names — here for ALL flavours;
        # "reload BEFORE rename" is the call-site obligation pre@callsite._rename_glyphs_from_ufo#frame (pristine), now also for 'CFF ' fonts
        **{k: CONTRACTS[f"{PP}.process_glyph_names"].ensures[k] for k in ("keep-no-rename", "rename-on-reloaded-font", "post-2-when-kept", "drop-names", "drop-unsupported-cff")},
    },
    canaries={"never-reloads": "self.otf_id == old(self.otf_id)"},
)


def _frame_cases(rng, n):
    """really compiled TTF / CFF / CFF2 fonts (all switches), at most a few dozen: compiling is the expensive part"""
    return _pgn_cases(rng, min(n, 24) if n <= 100 else min(n, 120))


def _rg_frame_build(d):
    pp = compiled_font(d)
    if d.get("reload", True):
        from ufo2ft.postProcessor import _reloadFont

        pp.otf = _reloadFont(pp.otf)
    return pp


CONTRACTS[f"{PP}.rename_glyphs#frame"].runtime = Runtime(
    _frame_cases, lambda d: (lambda pp: {"otf": pp.otf, "rename_map": pp._build_production_names()})(_rg_frame_build(d)),
)
CONTRACTS[f"{PP}._rename_glyphs_from_ufo#frame"].runtime = Runtime(_frame_cases, lambda d: {"self": _rg_frame_build(d)}, call=lambda fn, a: fn(a["self"]))
CONTRACTS[f"{PP}.process_glyph_names#frame"].runtime = Runtime(
    _frame_cases, lambda d: {"self": compiled_font(d), "useProductionNames": d["arg"]}, call=lambda fn, a: fn(a["self"], a["useProductionNames"])
)


# =====================================================================================================
# The 'CFF ' chain: a reloaded CFF font is renamed consistently (glyph order, charset, CharStrings keys: one map)
_S_TOP = "self.otf['CFF '].cff.topDictIndex[0]"
_S_CS = f"{_S_TOP}.CharStrings.charStrings"
_NAMES_AGREE = _NAMES_AGREE_T.format(top=_S_TOP, order="self.order")

contract(
    f"{PP}._rename_glyphs_from_ufo",
    name="cff",
    props=["C11"],
    params={"self": Ref("PostProcessor")},
    calls={f"{PP}.rename_glyphs": f"{PP}.rename_glyphs#cff"},
    modifies=_RENAME_FRAME,
    requires=[
        "self.otf.pristine", "'CFF ' in self.otf",
        # a freshly loaded CFF font (contract of _reloadFont): the names in the CFF table are the glyph order
        _NAMES_AGREE,
    ],
    ensures={
        # afterwards they are the NEW glyph order ...
        "cff-names-agree": f"len({_S_TOP}.charset) == len(self.order) and all({_S_TOP}.charset[k] == self.order[k] for k in range(len(self.order)))",
        # ... and every charstring object is still in the table (under its glyph's final name): nothing is re-built or dropped
        "charstrings-kept": f"all(any({_S_CS}[m] is old({_S_CS})[n] for m in {_S_CS}) for n in old({_S_CS}))",
        "no-new-entries": f"all(any(old({_S_CS})[n] is {_S_CS}[m] for n in old({_S_CS})) for m in {_S_CS})",
    },
    canaries={"same-names": f"all(n in {_S_CS} for n in old({_S_CS}))"},
)

contract(
    f"{PP}.process_glyph_names",
    name="cff",
    props=["C11"],
    params={"self": Ref("PostProcessor"), "useProductionNames": Opt(BOOL)},
    calls={f"{PP}._rename_glyphs_from_ufo": f"{PP}._rename_glyphs_from_ufo#cff"},
    modifies=sorted(set(["PostProcessor.otf"] + _RENAME_FRAME + _POST_FIELDS)),
    merge_branches=False,  # one VC per path: no ite over heaps between "renamed" and "not renamed"
    requires=["'CFF ' in self.otf"],
    ensures={
        # renaming a 'CFF ' font ends with a CFF table whose charset is the final glyph order
        "cff-names-agree": f"implies({_K} and {_U}, len({_S_TOP}.charset) == len(self.order) and all({_S_TOP}.charset[k] == self.order[k] for k in range(len(self.order))))",
        "still-cff": "'CFF ' in self.otf",
    },
    canaries={"never-renames": f"not ({_K} and {_U})"},
)


def _cff_cases(rng, n):
    return [dict(d, flavor="cff") for d in _frame_cases(rng, n)]


CONTRACTS[f"{PP}.rename_glyphs#cff"].runtime = Runtime(
    _cff_cases, lambda d: (lambda pp: {"otf": pp.otf, "rename_map": pp._build_production_names()})(_rg_frame_build(d)),
)
CONTRACTS[f"{PP}._rename_glyphs_from_ufo#cff"].runtime = Runtime(_cff_cases, lambda d: {"self": _rg_frame_build(d)}, call=lambda fn, a: fn(a["self"]))
CONTRACTS[f"{PP}.process_glyph_names#cff"].runtime = Runtime(
    _cff_cases, lambda d: {"self": compiled_font(d), "useProductionNames": d["arg"]}, call=lambda fn, a: fn(a["self"], a["useProductionNames"])
)
CONTRACTS["ufo2ft.postProcessor:_reloadFont"].runtime = Runtime(_frame_cases, lambda d: {"font": compiled_font(d).otf})
