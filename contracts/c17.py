"""C17 — automatic features only add to the user's feature file.

Deductive part (pyvc, real ASTs of /repo/Lib/ufo2ft/featureWriters/baseFeatureWriter.py and featureCompiler.py):

  * BaseFeatureWriter.setContext          the to-do rule: a feature is generated iff the user has no top-level block of
                                          that tag, or a top-level block of that tag carries the insert marker; append
                                          mode ignores both; `existingFeatures` = user tags minus marked tags
  * BaseFeatureWriter.collectInsertMarkers only comments that are DIRECT children of a TOP-LEVEL feature block of a
                                          requested tag count, first marker per tag wins, every such tag is reported
  * FeatureCompiler.initFeatureWriters    stable partition: GSUB writers first, relative orders kept

`ast.findFeatureTags` (and the generator `iterFeatureBlocks` under it) is called through its CONTRACT (contracts/c17_iter.py).
The RECURSIVE generator `ast.findCommentPattern` is still outside the pyvc subset: it enters collectInsertMarkers as a CALL-SITE
SUMMARY, checked against the real helper by the bounded conformance part of vcheck/hooks/c17.py and listed as an assumption.
`BaseFeatureWriter._insert` is under contract in contracts/c17_insert.py (one generated feature: the whole result); `write` /
`shouldContinue` in contracts/c17_write.py.
"""
import re

import z3

from pyvc import ty as T
from pyvc.api import BOOL, CLASSES, CONTRACTS, INT, STR, Const, Dict, List, Loop, Named, Opt, Ref, Runtime, Set, Tuple, cls, contract, lemma, specfn
from pyvc.core import Val, lift

from . import c17_model as M
from . import lib as _lib  # noqa: F401  (class "Lib")
from .c17_model import FEAFILE, NODE, NS

MATCHES = List(List(Ref(NODE)))
MARKERS = Dict(STR, Tuple(Ref(NODE), Ref(NODE)))


# ---- spec vocabulary -------------------------------------------------------------------------------------------------


def _walk_comments(block, pattern, path):
    out = []
    for s in block.statements:
        if hasattr(s, "statements"):
            out += _walk_comments(s, pattern, path + [s])
        elif type(s).__name__ == "Comment" and re.match(pattern, str(s)):
            out.append(path + [s])
    return out


@specfn(MATCHES, opaque=True, feaFile=Ref(FEAFILE), pattern=STR)
def comment_matches(feaFile, pattern):
    """document-order list of [enclosing blocks..., comment] for every comment (at any depth) matching `pattern`.
    Opaque in the logic (a function of the feature file as it is on entry; neither contract below writes the AST);
    natively a reference implementation written independently of ufo2ft."""
    return [M.P(p) for p in _walk_comments(M.raw(feaFile), pattern, [])]


_CM = "comment_matches(feaFile, insertFeatureMarker)"
# what the two contracts below assume about the match list (checked natively against findCommentPattern by the hook)
MATCH_SHAPE = (
    "all(len(m) >= 1 and implies(len(m) == 2, m[0] in feaFile.statements and m[1] in m[0].statements and m[1].kind == 'Comment') for m in MM)"
)


@M.shim_function(
    "findCommentPattern",
    "ASSUMED CALL-SITE SUMMARY of ufo2ft.featureWriters.ast.findCommentPattern (generator, outside the subset): returns comment_matches(feaFile, pattern); "
    "every match is non-empty, a match of length 2 is [top-level statement b, comment that is a direct child of b] — bounded conformance in vcheck/hooks/c17.py",
)
def _findCommentPattern(ex, st, args, kwargs, node):
    feaFile, pattern = args
    sf = __import__("pyvc.api", fromlist=["SPECFNS"]).SPECFNS["comment_matches"]
    mm = ex.apply_spec(sf, [feaFile, pattern], st, node)
    M.assume_clause(ex, st, {"MM": mm, "feaFile": feaFile}, MATCH_SHAPE)
    return mm


@M.shim_function(
    "findFeatureTags",
    "glue, no assumption about ufo2ft: ast.findFeatureTags(feaFile) is called through its CONTRACT (contracts/c17_iter.py); the result is a new set object (set comprehension)",
)
def _findFeatureTags(ex, st, args, kwargs, node):
    """`ast.findFeatureTags(feaFile)` through its CONTRACT (contracts/c17_iter.py: exactly the tags of the top-level feature blocks); the
    returned set becomes a fresh set object (Python: a set comprehension builds a new set)"""
    (feaFile,) = args
    r = ex.call_contract(CONTRACTS["ufo2ft.featureWriters.ast:findFeatureTags"], [feaFile], {}, st, node)
    return _new_set(ex, st, r, node)


_SHIM = M.fea_shim(findCommentPattern=_findCommentPattern, findFeatureTags=_findFeatureTags)
_GLOBALS = {"ast": _SHIM, "isinstance": M.ISINSTANCE, "SimpleNamespace": M.NAMESPACE}
_FR = __import__("pyvc.symex", fromlist=["FuncRef"]).FuncRef

# =====================================================================================================================
# collectInsertMarkers

_IS_MARK = "(len({m}) == 2 and {m}[0].kind == 'FeatureBlock' and {m}[0].name in featureTags)"

contract(
    "ufo2ft.featureWriters.baseFeatureWriter:BaseFeatureWriter.collectInsertMarkers",
    props=["C17"],
    params={"feaFile": Ref(FEAFILE), "insertFeatureMarker": STR, "featureTags": Set(STR)},
    returns=MARKERS,
    globals=_GLOBALS,
    ensures={
        # a reported tag was asked for, and its entry is (b, c): b a TOP-LEVEL feature block of that tag, c a matching comment directly inside b
        "located": "all(t in featureTags and result[t][0] in feaFile.statements and result[t][0].kind == 'FeatureBlock' and result[t][0].name == t"
        " and result[t][1] in result[t][0].statements and result[t][1].kind == 'Comment' for t in result)",
        # it is a match, and the FIRST one for that tag in document order
        "first": f"all(any(len({_CM}[a]) == 2 and result[t] == ({_CM}[a][0], {_CM}[a][1])"
        f" and all(not ({_IS_MARK.format(m=_CM + '[b]')} and {_CM}[b][0].name == t) for b in range(a))"
        f" for a in range(len({_CM}))) for t in result)",
        # every marker in a top-level block of a requested tag makes that tag reported
        "complete": f"all(implies({_IS_MARK.format(m=_CM + '[a]')}, {_CM}[a][0].name in result) for a in range(len({_CM})))",
    },
    canaries={"nested-counts": f"all(implies(len({_CM}[a]) == 3, {_CM}[a][0].name in result) for a in range(len({_CM})))"},
    locals={"insertComments": MARKERS},
    ghost_vars={"w": (Dict(STR, INT), "{}")},
    ghost={"insertComments[block.name] = (block, comment)": ["w = {**w, block.name: i}"]},
    merge_branches=False,
    loops={
        "for match in ast.findCommentPattern(feaFile, insertFeatureMarker)": Loop(
            index="i",
            seq="MS",
            invariants={
                "wit": "all(t in w and 0 <= w[t] and w[t] < i and len(MS[w[t]]) == 2 and MS[w[t]][0].kind == 'FeatureBlock' and MS[w[t]][0].name == t"
                " and t in featureTags and insertComments[t] == (MS[w[t]][0], MS[w[t]][1])"
                f" and all(not ({_IS_MARK.format(m='MS[b]')} and MS[b][0].name == t) for b in range(w[t])) for t in insertComments)",
                "cover": f"all(implies({_IS_MARK.format(m='MS[a]')}, MS[a][0].name in insertComments) for a in range(i))",
            },
        )
    },
)

_LOCATED = ("all(t in featureTags and {r}[t][0] in feaFile.statements and {r}[t][0].kind == 'FeatureBlock' and {r}[t][0].name == t"
            " and {r}[t][1] in {r}[t][0].statements and {r}[t][1].kind == 'Comment' for t in {r})")
# the same function against the part of its contract that callers need (kept separate so that setContext's obligations do
# not carry the nested-quantifier clauses `first` / `complete` as hypotheses)
contract(
    "ufo2ft.featureWriters.baseFeatureWriter:BaseFeatureWriter.collectInsertMarkers",
    name="located",
    props=["C17"],
    params={"feaFile": Ref(FEAFILE), "insertFeatureMarker": STR, "featureTags": Set(STR)},
    returns=MARKERS,
    globals=_GLOBALS,
    ensures={"located": _LOCATED.format(r="result")},
    canaries={"empty": "all(t not in result for t in featureTags)"},
    merge_branches=False,
    locals={"insertComments": MARKERS},
    loops={"for match in ast.findCommentPattern(feaFile, insertFeatureMarker)": Loop(index="i", seq="MS", invariants={"located": _LOCATED.format(r="insertComments")})},
)

# =====================================================================================================================
# setContext


def _collect(ex, st, self, args, kwargs, node):
    # `self.collectInsertMarkers(...)` is a staticmethod: called through its CONTRACT, without the receiver; a set object
    # passed as `featureTags` is read as its current value
    args = [_set_value(ex, st, a) if isinstance(a.ty, T.Ref) and a.ty.cls == TAGSET else a for a in args]
    return ex.call_contract(CONTRACTS["ufo2ft.featureWriters.baseFeatureWriter:BaseFeatureWriter.collectInsertMarkers#located"], args, kwargs, st, node)


# ---- python sets as heap objects (aliasing-faithful): `todo`, `existing` ------------------------------------------
TAGSET = "c17_TagSet"
SETF = "todo"  # contents field; named like the context attribute because loop havoc is by field NAME (see notes/C17.requests.md)


def _set_value(ex, st, v):
    """the set of strings denoted by a TagSet object / a set value / a dict-keys view"""
    if isinstance(v.ty, T.Ref) and v.ty.cls == TAGSET:
        return ex.read_field(st, v, SETF)
    if isinstance(v.ty, T.Set):
        return v
    if isinstance(v.ty, T.Dict):
        return Val(Set(v.ty.k), v.ty.sort().dom(lift(v)))
    if v.is_py and isinstance(v.py, tuple) and len(v.py) == 3 and v.py[0] == "iterinfo" and getattr(v.py[1], "dict_items", None) is not None:
        dt, dterm, mode = v.py[1].dict_items
        if mode == "keys":
            return Val(Set(dt.k), dt.sort().dom(dterm))
    if v.is_py and isinstance(v.py, (set, frozenset)) and not v.py:
        return Val(Set(STR), z3.K(z3.StringSort(), z3.BoolVal(False)))
    from pyvc.core import Unsupported

    raise Unsupported(f"set operand {v}")


def _new_set(ex, st, value, node):
    o = ex.new_object(st, TAGSET)
    ex.write_field(st, o, SETF, value, node)
    return o


@M.shim_function("set", "builtins.set(): set() is a fresh empty set object, set(c) a fresh set object holding the elements of c")
def _set_ctor(ex, st, args, kwargs, node):
    if not args:
        return _new_set(ex, st, Val(Set(STR), z3.K(z3.StringSort(), z3.BoolVal(False))), node)
    return _new_set(ex, st, _set_value(ex, st, args[0]), node)


def _difference_update(ex, st, self, args, kwargs, node):
    cur = lift(ex.read_field(st, self, SETF))
    for a in args:
        cur = z3.SetDifference(cur, lift(_set_value(ex, st, a), Set(STR)))
    ex.write_field(st, self, SETF, Val(Set(STR), cur), node)
    return Val.const(None)


_difference_update.modifies = [f"{TAGSET}.{SETF}"]


def _discard(ex, st, self, args, kwargs, node):
    cur = lift(ex.read_field(st, self, SETF))
    ex.write_field(st, self, SETF, Val(Set(STR), z3.Store(cur, lift(args[0], STR), z3.BoolVal(False))), node)
    return Val.const(None)


def _remove(ex, st, self, args, kwargs, node):
    ex.safety(st, z3.Select(lift(ex.read_field(st, self, SETF)), lift(args[0], STR)), "KeyError", node)
    return _discard(ex, st, self, args, kwargs, node)


_discard.modifies = _remove.modifies = ["c17_TagSet.todo"]


def _ts_iter(ex, st, self, node):
    from pyvc.stmts import IterInfo

    return IterInfo("set", set_term=lift(ex.read_field(st, self, SETF)), elem=STR)


cls(
    TAGSET,
    fields={SETF: Set(STR)},
    contains=lambda ex, st, self, x: z3.Select(lift(ex.read_field(st, self, SETF)), lift(x, STR)),
    truth=lambda ex, st, self: lift(ex.read_field(st, self, SETF)) != z3.K(z3.StringSort(), z3.BoolVal(False)),
    iter=_ts_iter,
    methods={"difference_update": _difference_update, "discard": _discard, "remove": _remove},
    notes="a python set of tags as a heap object (`in`, iteration, truthiness, difference_update): python set semantics, aliasing-faithful",
)

cls("c17_Info", fields={"familyName": STR, "styleName": STR}, notes="font.info (only read for log messages)")
cls("c17_Font", fields={"lib": Ref("Lib"), "info": Ref("c17_Info")}, absent=("findDefault",), notes="the font handed to a writer: a Font (not a DesignSpaceDocument) with lib and info")
cls(
    "c17_Writer",
    fields={"features": Set(STR), "mode": STR, "insertFeatureMarker": Opt(STR), "context": Ref(NS)},
    methods={"collectInsertMarkers": _collect},
    views={"features": lambda o: set(o.features), "context": lambda o: M.P(o.context)},
    notes="a BaseFeatureWriter instance: features (tags it can write), mode, insertFeatureMarker, context",
)
CLASSES[NS].fields.update({"font": Ref("c17_Font"), "todo": Ref(TAGSET), "existingFeatures": Ref(TAGSET), "insertComments": Opt(MARKERS), "feaFile": Ref(FEAFILE), "isVariable": BOOL})

_SKIP = "self.mode == 'skip'"
_MARKED = "(self.insertFeatureMarker is not None and result.insertComments is not None and t in result.insertComments)"

contract(
    "ufo2ft.featureWriters.baseFeatureWriter:BaseFeatureWriter.setContext",
    props=["C17"],
    params={"self": Ref("c17_Writer"), "font": Ref("c17_Font"), "feaFile": Ref(FEAFILE)},
    returns=Ref(NS),
    globals={**_GLOBALS, "set": Val.obj(_FR(_set_ctor, "c17shim.set"))},
    modifies=["c17_Writer.context"],
    ensures={
        "context": "result == self.context and result.feaFile == feaFile and result.font == font",
        # the font handed in is a Font, not a DesignSpaceDocument (class c17_Font): the context says so (used by C18's _getLigatureCarets)
        "static-font": "not result.isVariable",
        # only features of this writer are ever generated
        "todo-subset": "all(t in self.features for t in result.todo)",
        # skip mode: generated iff the user has no top-level block of the tag, or one of them carries the marker
        "todo-skip": f"implies({_SKIP}, all(iff(t in result.todo, t not in feaFile.featureTags or {_MARKED}) for t in self.features))",
        # append mode: everything is generated, markers are not even looked for
        "todo-append": f"implies(not {_SKIP}, all(t in result.todo for t in self.features) and result.insertComments is None)",
        # the markers are those of collectInsertMarkers for the writer's own features: top-level block of the tag, direct child comment
        "markers": f"implies({_SKIP} and self.insertFeatureMarker is not None, result.insertComments is not None"
        " and all(t in self.features and result.insertComments[t][0] in feaFile.statements and result.insertComments[t][0].kind == 'FeatureBlock'"
        " and result.insertComments[t][0].name == t and result.insertComments[t][1] in result.insertComments[t][0].statements for t in result.insertComments))",
        "no-markers": f"implies({_SKIP} and self.insertFeatureMarker is None, result.insertComments is None)",
        "existing": f"implies({_SKIP}, all(iff(t in result.existingFeatures, t in feaFile.featureTags and not {_MARKED}) for t in feaFile.featureTags)"
        " and all(t in feaFile.featureTags for t in result.existingFeatures))",
    },
    canaries={"never-generates-existing": "all(t not in feaFile.featureTags for t in result.todo)"},
    merge_branches=False,
)


# =====================================================================================================================
# initFeatureWriters: GSUB writers first, stable

W = Named("c17_W", tableTag=STR, cls=STR)


@specfn(List(W), L=List(W), gsub=BOOL, i=INT)
def c17_keep(L, gsub, i):
    """the writers among L[:i] whose table is GSUB (gsub=True) / is not GSUB (gsub=False), in list order"""
    if i <= 0:
        return []
    prev = c17_keep(L, gsub, i - 1)
    if (L[i - 1].tableTag == "GSUB") == gsub:
        return prev + [L[i - 1]]
    return prev


def _descr(w):
    import collections
    import inspect

    k = w if inspect.isclass(w) else type(w)
    return _WD(w.tableTag, k.__module__ + "." + k.__qualname__)


import collections as _c  # noqa: E402

_WD = _c.namedtuple("c17_W", "tableTag cls")


@specfn(List(W), opaque=True, self=Ref("c17_Compiler"), featureWriters=Opt(List(W)))
def loaded_writers(self, featureWriters):
    """what FeatureCompiler._load_custom_feature_writers returns (ellipsis expanded from the UFO lib or the defaults), each
    entry described by (tableTag, class).  Opaque in the logic; natively re-implemented from the documented behaviour."""
    from ufo2ft.featureWriters import loadFeatureWriters

    comp = M.raw(self)
    fw = [...] if featureWriters is None else featureWriters
    out = []
    for w in fw:
        if w is ...:
            ws = loadFeatureWriters(comp.ufo)
            out.extend(ws if ws is not None else comp.defaultFeatureWriters)
        else:
            out.append(w)
    return [x if isinstance(x, _WD) else _descr(x) for x in out]


def _load_custom(ex, st, self, args, kwargs, node):
    from pyvc.api import SPECFNS

    fw = args[0] if args else kwargs.get("featureWriters", Val.const(None))
    return ex.apply_spec(SPECFNS["loaded_writers"], [self, fw], st, node)


cls(
    "c17_Compiler",
    fields={"featureWriters": List(W)},
    methods={"_load_custom_feature_writers": _load_custom},
    views={"featureWriters": lambda o: [_descr(w) for w in o.featureWriters]},
    notes="a FeatureCompiler; writers are described by (tableTag, class); `_load_custom_feature_writers` enters as the opaque "
    "function loaded_writers (its ellipsis expansion is covered by the run-time cross-check and the hook only)",
)


@M.shim_function("isclass", "inspect.isclass(w) is False for a writer INSTANCE (the deductive contract covers lists of instances; class entries, "
                 "instantiated by `writer()`, are covered by the run-time cross-check)")
def _isclass(ex, st, args, kwargs, node):
    return Val.const(False)


_LW = "loaded_writers(self, featureWriters)"
contract(
    "ufo2ft.featureCompiler:FeatureCompiler.initFeatureWriters",
    props=["C17"],
    params={"self": Ref("c17_Compiler"), "featureWriters": Opt(List(W))},
    globals={"isclass": Val.obj(__import__("pyvc.symex", fromlist=["FuncRef"]).FuncRef(_isclass, "c17shim.isclass"))},
    modifies=["c17_Compiler.featureWriters"],
    ensures={
        # stable partition: all GSUB writers, in their order, then all the others, in their order
        "gsub-first-stable": f"self.featureWriters == c17_keep({_LW}, True, len({_LW})) + c17_keep({_LW}, False, len({_LW}))",
    },
    canaries={"order-kept": f"self.featureWriters == {_LW}"},
    locals={"gsubWriters": List(W), "others": List(W)},
    loops={
        "for writer in featureWriters": Loop(
            index="i",
            seq="LW",
            invariants={"g": "gsubWriters == c17_keep(LW, True, i)", "o": "others == c17_keep(LW, False, i)"},
        )
    },
)

# ---- run-time side ---------------------------------------------------------------------------------------------------

_BLOCKS = [
    "feature kern {\n    pos a b 10;\n} kern;\n",
    "feature kern {\n    # Automatic Code\n    pos a b 10;\n} kern;\n",
    "feature kern {\n    pos a b 10;\n    # Automatic Code\n} kern;\n",
    "feature kern {\n    pos a b 10;\n    # Automatic Code\n    pos b a 5;\n} kern;\n",
    "feature kern {\n    # Automatic Code\n} kern;\n",
    "feature kern {\n    # automatic code\n    pos a b 10;\n} kern;\n",
    "feature kern {\n    lookup k1 {\n        # Automatic Code\n        pos a b 10;\n    } k1;\n} kern;\n",
    "feature dist {\n    pos a b 10;\n} dist;\n",
    "feature dist {\n    pos a b 10;\n    # Automatic Code\n} dist;\n",
    "feature liga {\n    # Automatic Code\n    sub a b by c;\n} liga;\n",
    "# Automatic Code\n",
    "lookup top {\n    # Automatic Code\n    pos a b 1;\n} top;\n",
    "languagesystem DFLT dflt;\n",
]


def _fea_cases(rng, n):
    """first the cross product kern-block variant x dist-block variant (skip mode, both features), then random mixtures"""
    out = []
    kern = [None] + [b for b in _BLOCKS if b.startswith("feature kern")]
    dist = [None] + [b for b in _BLOCKS if b.startswith("feature dist")]
    for kb in kern:
        for db in dist:
            out.append({"fea": (kb or "") + (db or ""), "features": ["kern", "dist"], "mode": "skip", "marker": r"\s*# Automatic Code.*"})
    rng.shuffle(out)
    while len(out) < n:
        k = rng.randint(0, 4)
        blocks = [rng.choice(_BLOCKS) for _ in range(k)]
        blocks.sort(key=lambda b: not b.startswith("languagesystem"))
        out.append({
            "fea": "".join(blocks),
            "features": rng.choice([["kern", "dist"], ["kern"], ["dist"], ["kern", "dist", "liga"]]),
            "mode": rng.choice(["skip", "skip", "skip", "append"]),
            "marker": rng.choice([r"\s*# Automatic Code.*", r"\s*# Automatic Code.*", None]),
        })
    return out[:max(n, 24)]


def parse_fea(text):
    from io import StringIO

    from fontTools.feaLib.parser import Parser

    return Parser(StringIO(text), glyphNames={"a", "b", "c", "d", "e", "acutecomb", "f_i"}, followIncludes=False).parse()


def _setcontext_build(d):
    import ufoLib2

    from ufo2ft.featureWriters.baseFeatureWriter import BaseFeatureWriter

    class _W(BaseFeatureWriter):
        tableTag = "GPOS"
        features = frozenset(["kern", "dist", "liga"])

    w = _W(features=d["features"], mode=d["mode"])
    w.insertFeatureMarker = d["marker"]
    return {"self": w, "font": ufoLib2.Font(), "feaFile": parse_fea(d["fea"])}


CONTRACTS["ufo2ft.featureWriters.baseFeatureWriter:BaseFeatureWriter.setContext"].runtime = Runtime(
    _fea_cases, _setcontext_build, call=lambda fn, a: fn(a["self"], a["font"], a["feaFile"])
)


def _markers_build(d):
    return {"feaFile": parse_fea(d["fea"]), "insertFeatureMarker": d["marker"] or r"\s*# Automatic Code.*", "featureTags": set(d["features"])}


for _k in ("", "#located"):
    CONTRACTS["ufo2ft.featureWriters.baseFeatureWriter:BaseFeatureWriter.collectInsertMarkers" + _k].runtime = Runtime(
        _fea_cases, _markers_build, call=lambda fn, a: M.P(fn(**a))
    )


def _writers_cases(rng, n):
    names = ["KernFeatureWriter", "MarkFeatureWriter", "GdefFeatureWriter", "CursFeatureWriter", "GsubA", "GsubB"]
    out = []
    for _ in range(n):
        form = rng.choice(["none", "list", "list", "ellipsis"])
        ws = [[rng.choice(names), rng.choice(["class", "instance"])] for _ in range(rng.randint(0, 5))]
        lib = rng.choice([None, None, [rng.choice(names[:4]) for _ in range(rng.randint(0, 3))]])
        if form == "ellipsis":
            ws.insert(rng.randint(0, len(ws)), ["...", "ellipsis"])
        out.append({"form": form, "writers": ws, "lib": lib})
    return out


def _writers_build(d):
    import ufoLib2
    from fontTools.ttLib import TTFont

    import ufo2ft.featureWriters as FW
    from ufo2ft.featureCompiler import FeatureCompiler

    class GsubA(FW.BaseFeatureWriter):
        tableTag = "GSUB"
        features = frozenset(["liga"])

        def _write(self):
            return False

    class GsubB(GsubA):
        features = frozenset(["ccmp"])

    pool = {"GsubA": GsubA, "GsubB": GsubB}
    ufo = ufoLib2.Font()
    ufo.newGlyph("a")
    if d["lib"] is not None:
        ufo.lib[FW.FEATURE_WRITERS_KEY] = [{"class": n} for n in d["lib"]]
    comp = FeatureCompiler.__new__(FeatureCompiler)
    comp.ufo = ufo
    comp.ttFont = TTFont()
    fw = None
    if d["form"] != "none":
        fw = []
        for nm, how in d["writers"]:
            if how == "ellipsis":
                fw.append(...)
                continue
            k = pool.get(nm) or getattr(FW, nm)
            fw.append(k if how == "class" else k())
    return {"self": comp, "featureWriters": fw}


CONTRACTS["ufo2ft.featureCompiler:FeatureCompiler.initFeatureWriters"].runtime = Runtime(
    _writers_cases, _writers_build, call=lambda fn, a: fn(a["self"], a["featureWriters"])
)
