"""C17 — FeatureCompiler.setupFeatures: the writers run in the order of `self.featureWriters`, each exactly once, all on the ONE feature
file parsed from the UFO; the feature source is that file printed afterwards (or the user's text verbatim when there are no writers)."""
import z3

from pyvc import ty as T
from pyvc.api import BOOL, CLASSES, CONTRACTS, INT, SPECFNS, STR, Const, Dict, List, Loop, Opt, Ref, Runtime, Set, Tuple, cls, contract, specfn
from pyvc.core import Val, fresh, lift
from pyvc.symex import FuncRef

from . import c17
from . import c17_model as M
from .c17_model import FEAFILE, NODE, NS

COMP = "c17_SetupCompiler"
WR = "c17_AnyWriter"
UFO = "c17_Ufo"

cls("c17_UfoFeatures", fields={"text": Opt(STR)}, notes="ufo.features")
cls(UFO, fields={"features": Ref("c17_UfoFeatures"), "path": Opt(STR)}, notes="the UFO as setupFeatures sees it: features.text, path")


def _writer_write(ex, st, self, args, kwargs, node):
    """`writer.write(ufo, featureFile, compiler=self)` of SOME feature writer (any subclass): may rewrite the feature file in any way.  Ghost: the
    call is appended to the compiler's trace (writer, file)"""
    comp = kwargs["compiler"]
    for fld, item in (("trace", self), ("trace_files", args[1])):
        old = ex.read_field(st, comp, fld)
        new = z3.Concat(lift(old), z3.Unit(lift(item)))
        ex.write_field(st, comp, fld, Val(old.ty, new), node)
        # position-wise consequences of `new == old ++ [item]` (valid facts; they spare the solver a word equation)
        k = z3.Int(f"c17_k_{fld}")
        st.assume(z3.Length(new) == z3.Length(lift(old)) + 1)
        st.assume(new[z3.Length(lift(old))] == lift(item))
        st.assume(z3.ForAll([k], z3.Implies(z3.And(k >= 0, k < z3.Length(lift(old))), new[k] == lift(old)[k]), patterns=[new[k]]))
    for cn in (FEAFILE, NODE):
        arr = ex.field_array(st, cn, "statements")
        st.heap[(cn, "statements")] = z3.Const(fresh(T.INT, "w").decl().name() + f"_H_{cn}_statements", arr.sort())
    return Val(BOOL, fresh(BOOL, "wrote"))


_writer_write.modifies = [f"{COMP}.trace", f"{COMP}.trace_files", f"{FEAFILE}.statements", f"{NODE}.statements"]

cls(WR, fields={"mode": STR, "insertFeatureMarker": Opt(STR), "tableTag": STR}, methods={"write": _writer_write},
    notes="a feature writer of any class: mode, insertFeatureMarker, tableTag; `write` = arbitrary effect on the feature file (ghost: recorded in the compiler's trace)")
cls(COMP, fields={"featureWriters": List(Ref(WR)), "ufo": Ref(UFO), "feaIncludeDir": Opt(STR), "features": Opt(STR), "trace": List(Ref(WR)), "trace_files": List(Ref(FEAFILE)),
                  "parsed": Ref(FEAFILE)},
    notes="a FeatureCompiler as setupFeatures sees it; ghost fields: trace / trace_files (the writers whose `write` ran and the file each got), parsed (what parseLayoutFeatures returned)")


@specfn(STR, opaque=True, feaFile=Ref(FEAFILE), stamp=INT)
def c17_asFea(feaFile, stamp):
    """feaLib FeatureFile.asFea(): the text of the file (a function of the AST at that moment; opaque)"""
    return M.raw(feaFile).asFea()


@M.shim_function("parseLayoutFeatures", "ASSUMED CALL-SITE SUMMARY of ufo2ft.featureCompiler.parseLayoutFeatures (a wrapper around feaLib's Parser): returns a NEW FeatureFile object")
def _parse(ex, st, args, kwargs, node):
    o = ex.new_object(st, FEAFILE)
    comp = st.env["self"]
    ex.write_field(st, comp, "parsed", o, node)
    return o


@M.shim_function("warn_about_miscased_insertion_markers", "ASSUMED CALL-SITE SUMMARY of ufo2ft.featureCompiler.warn_about_miscased_insertion_markers: logs warnings, writes nothing")
def _warn(ex, st, args, kwargs, node):
    return Val.const(None)


@M.shim_function("describe_ufo", "ASSUMED CALL-SITE SUMMARY of ufo2ft.util.describe_ufo: a string describing the UFO (only used in a log message)")
def _describe(ex, st, args, kwargs, node):
    return Val(STR, fresh(STR, "ufo_description"))


def _fr(f, name):
    return Val.obj(FuncRef(f, "c17shim." + name))


def _asfea(ex, st, self, args, kwargs, node):
    # the text depends on the whole AST: modelled as an uninterpreted function of the file and the current statements heap
    arr = ex.field_array(st, FEAFILE, "statements")
    arr2 = ex.field_array(st, NODE, "statements")
    f = z3.Function("c17_asFea_h", T.RefSort, arr.sort(), arr2.sort(), z3.StringSort())
    return Val(STR, f(lift(self), arr, arr2))


CLASSES[FEAFILE].methods["asFea"] = _asfea
CLASSES[FEAFILE].derived["fea_text"] = lambda ex, st, self: _asfea(ex, st, self, [], {}, None)
CLASSES[FEAFILE].views["fea_text"] = lambda o: o.asFea()

contract(
    "ufo2ft.featureCompiler:FeatureCompiler.setupFeatures",
    props=["C17"],
    params={"self": Ref(COMP)},
    globals={"parseLayoutFeatures": _fr(_parse, "parseLayoutFeatures"), "warn_about_miscased_insertion_markers": _fr(_warn, "warn_about_miscased_insertion_markers"),
             "describe_ufo": _fr(_describe, "describe_ufo")},
    requires=["len(self.trace) == 0", "len(self.trace_files) == 0"],
    modifies=[f"{COMP}.features", f"{COMP}.trace", f"{COMP}.trace_files", f"{COMP}.parsed", f"{FEAFILE}.statements", f"{NODE}.statements"],
    ensures={
        # every writer's `write` runs exactly once, in the order of self.featureWriters (GSUB writers first: initFeatureWriters) ...
        "writers-run-in-list-order": "len(self.trace) == len(self.featureWriters) and all(self.trace[j] == self.featureWriters[j] for j in range(len(self.featureWriters)))",
        # ... all of them on the ONE feature file parsed from the UFO, which is printed afterwards
        "one-feature-file": "all(x == self.parsed for x in self.trace_files)",
        "features-are-that-file-printed": "implies(len(self.featureWriters) > 0, fresh(self.parsed) and self.features == self.parsed.fea_text)",
        # no writers: the user's text, verbatim
        "no-writers-verbatim": "implies(len(self.featureWriters) == 0, self.features == (self.ufo.features.text if self.ufo.features.text else ''))",
    },
    canaries={"no-writer-runs": "len(self.trace) == 0"},
    merge_branches=False,
    comp_member_facts=False,  # the member/position facts of `{w.insertFeatureMarker for w in self.featureWriters ..}` are not needed and derail z3 on the loop steps
    loops={"for writer in self.featureWriters": Loop(index="i", seq="FW", invariants={
        "trace-len": "len(self.trace) == i", "trace": "all(self.trace[j] == self.featureWriters[j] for j in range(i))", "files": "all(x == self.parsed for x in self.trace_files)", "fw": "self.featureWriters == FW", "parsed": "featureFile == self.parsed"})},
)


# ---- run-time side ---------------------------------------------------------------------------------------------------

CLASSES[COMP].views["parsed"] = lambda o: M.P(o.trace_files[0]) if o.trace_files else None
CLASSES[COMP].views["trace_files"] = lambda o: [M.P(x) for x in o.trace_files]


def _setup_cases(rng, n):
    feas = ["", "languagesystem DFLT dflt;\n", "feature kern {\n    # Automatic Code\n    pos a b 10;\n} kern;\n", "feature kern {\n    # automatic code\n} kern;\nfeature liga {\n    sub a b by c;\n} liga;\n"]
    out = [{"fea": f, "writers": w} for f in feas for w in ([], [["GSUB", "skip", True]], [["GSUB", "skip", True], ["GPOS", "append", False], ["GPOS", "skip", True]])]
    while len(out) < n:
        out.append({"fea": rng.choice(feas), "writers": [[rng.choice(["GSUB", "GPOS"]), rng.choice(["skip", "append"]), rng.random() < 0.7] for _ in range(rng.randint(0, 4))]})
    return out[:max(n, 12)]


def _setup_build(d):
    import logging

    import ufoLib2
    from fontTools.feaLib import ast as fa
    from fontTools.ttLib import TTFont

    from ufo2ft.featureCompiler import FeatureCompiler

    logging.getLogger("ufo2ft.featureCompiler").setLevel(logging.ERROR)  # the mis-cased marker warning is expected in some cases

    class _Writer:
        def __init__(self, tag, mode, marker):
            self.tableTag, self.mode = tag, mode
            self.insertFeatureMarker = r"\s*# Automatic Code.*" if marker else None

        def write(self, font, feaFile, compiler=None):
            compiler.trace.append(self)
            compiler.trace_files.append(feaFile)
            feaFile.statements.append(fa.Comment(f"# written by writer {len(compiler.trace)}"))
            return True

    ufo = ufoLib2.Font()
    for g in "abc":
        ufo.newGlyph(g)
    ufo.features.text = d["fea"]
    comp = FeatureCompiler.__new__(FeatureCompiler)
    comp.ufo, comp.ttFont, comp.feaIncludeDir = ufo, TTFont(), None
    comp.featureWriters = [_Writer(*w) for w in d["writers"]]
    comp.trace, comp.trace_files, comp.features = [], [], None
    return {"self": comp}


CONTRACTS["ufo2ft.featureCompiler:FeatureCompiler.setupFeatures"].runtime = Runtime(_setup_cases, _setup_build, call=lambda fn, a: fn(a["self"]))
