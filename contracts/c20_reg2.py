"""C20 — kernFeatureWriter2.register_lookups (the legacy kern writer): WHICH script tags get kerning registered, with WHICH languages.

Same construction as contracts/c20_reg.py (the new writer's `_registerLookups`): every `ast.addLookupReferences(feature, lookups, tag, languages)`
call is handed to the PROVED contract `addLookupReferences#general` (its precondition is an obligation at both call sites) and recorded in the ghost
trace `feature.calls`; the clauses speak about every recorded call.  Differences of the function: lookups are keyed by writing direction
(`Direction.Neutral / LeftToRight / RightToLeft`), the scripts come from `context.knownScripts`, the declared languages from
`context.feaLanguagesByTag`, and a tag whose merged lookup dict is empty is skipped.

NOT REGISTERED (props=[]).  FINDING (engine, not ufo2ft): with merged branches (the default) all 51 + 45 obligations are discharged - and so they are for
three own mutations of the function (languages = ["dflt"]; dist block for every known script; `if not lookupsForThisScript` -> `if False`), which the
run-time cross-check of the same clauses catches.  Probe: the loop invariant `len(feature.calls) == 0` is "proved" on the path through the call, i.e. the
state after the call is INCONSISTENT: the three guarded `lookupsForThisScript.update(..)` are merged into `ite(cond and <fact about the fresh key list of
the update>, updated, old)` - the assumed fact of the branch ends up in the guard - and the hypotheses {keys-distinct fact, values-as-list fact, callee
precondition len(lookups) > 0, unfoldings of c20_refs / c20_langs} are unsat without the goal (8-assertion core, z3-5.1 0.5 s).  Nothing flags this:
the canary speaks about the exit state, which is reached through the (consistent) loop-exit havoc.  With merge_branches=False the contract gives 378 + 158
path obligations, all discharged, but generation alone takes 5 min, and it has not been probed for vacuity.  So the legacy writer's registration stays
unproved; see notes/C20.requests.md item 9.  (`_registerLookups` of the new writer has the same shape without the `continue`; its merged contract DOES
fail under the corresponding mutations, see notes/C20.md.)
"""
import types as _types

import z3

from pyvc.api import BOOL, CONTRACTS, STR, Dict, List, Loop, Ref, Runtime, Set, cls, contract
from pyvc.core import Val
from pyvc.symex import FuncRef

from . import c17_model as M
from . import c20_reg as R
from .c17_model import NODE

cls("c20_KernContext", fields={"feaLanguagesByTag": Dict(STR, List(STR)), "knownScripts": Set(STR)},
    notes="kernFeatureWriter2.KernContext (a SimpleNamespace): the two attributes register_lookups reads")

_DIR = _types.ModuleType("c20direction")  # Direction.X only serves as a dictionary key here: three distinct constants
_DIR.Neutral, _DIR.LeftToRight, _DIR.RightToLeft = "dflt", "ltr", "rtl"

_CALLS = "feature.calls"
_LMAP = "context.feaLanguagesByTag"


def _parts(cq):
    return {
        "dflt-call-only-for-kern": f"implies(not {cq}.loop, {cq}.script == 'DFLT' and {R._IS_KERN})",
        "script-is-known": f"implies({cq}.loop, {cq}.src in context.knownScripts and {cq}.src != 'Zyyy' and {cq}.src != 'Zinh')",
        "kern-or-dist-script": f"implies({cq}.loop, iff({R._IS_KERN}, {cq}.src not in c20_dist_scripts()))",
        "tag-of-that-script": f"implies({cq}.loop, 0 <= {cq}.ti and {cq}.ti < len(c20_ot_tags({cq}.src)) and c20_ot_tags({cq}.src)[{cq}.ti] == {cq}.script)",
        "with-exactly-the-declared-languages": f"{cq}.languages == ({_LMAP}[{cq}.script] if {cq}.script in {_LMAP} else ['dflt'])",
    }


_ALL = {nm: f"all({c} for q in range(len({_CALLS})))" for nm, c in _parts(_CALLS + "[q]").items()}
_INV = {**_ALL, "frame": R._FRAME}
WRITER2 = "ufo2ft.featureWriters.kernFeatureWriter2:register_lookups"


def reg2_variant(name, kern):
    return contract(
        WRITER2,
        name=name,
        props=[],
        params={"context": Ref("c20_KernContext"), "feature": Ref("c20_Block"), "lookups": Dict(STR, Dict(STR, Ref(NODE)))},
        globals={"ast": Val.obj(R._AST), "fea_ast": Val.obj(R._AST), "unicodedata": Val.obj(R._UD), "Direction": Val.obj(_DIR),
                 "script_horizontal_direction": Val.obj(FuncRef(None, "c20.script_direction")),
                 "DIST_ENABLED_SCRIPTS": Val(Set(STR), z3.Const("spec_c20_dist_scripts", Set(STR).sort()))},
        requires=["len(feature.calls) == 0", ("feature.name == 'kern'" if kern else "feature.name != 'kern'")],
        ensures=dict(_ALL),
        canaries={"no-call": f"len({_CALLS}) == 0"},
        modifies=["feature.statements", "feature.calls"],
        sorted_axioms=True,
        locals={"lookupsNeutral": R.LKS, "lookupsLTR": R.LKS, "lookupsRTL": R.LKS, "lookupsForThisScript": Dict(STR, Ref(NODE)), "script_direction": STR,
                "scriptsToReference": Set(STR)},
        loops={
            "for script in sorted(scriptsToReference)": Loop(index="a", seq="SS", invariants=_INV),
            "for tag in unicodedata.ot_tags_from_script(script)": Loop(index="t", seq="TG", invariants=_INV),
        },
        dict_key_positions=False,
        ghost_vars={"g_loop": (BOOL, "False")},
        ghost={"scriptsToReference -= DFLT_SCRIPTS": ["g_loop = True"]},
    )


reg2_variant("dist", False)
reg2_variant("kern", True)


def _reg2_cases(kern):
    def gen(rng, n):
        scripts = ["Zyyy", "Zinh", "Latn", "Arab", "Grek", "Deva", "Telu", "Khmr", "Hebr"]
        langmaps = [{}, {"latn": ["dflt", "TRK "], "arab": ["URD "]}, {"DFLT": ["dflt"], "latn": ["dflt"], "dev2": ["dflt", "MAR "], "deva": ["dflt"]}, {"khmr": ["dflt"], "tel2": ["TEL "]}]
        out = []
        for _ in range(max(n, 24)):
            out.append({"scripts": [s for s in scripts if rng.random() < 0.45], "dirs": {d: rng.randint(1, 2) for d in ("Neutral", "LeftToRight", "RightToLeft") if rng.random() < 0.6},
                        "langs": rng.choice(langmaps), "pre": rng.choice([0, 0, 2])})
        return out

    def build(d):
        from types import SimpleNamespace

        from fontTools.feaLib import ast as fa

        from ufo2ft.featureWriters.kernFeatureWriter2 import Direction

        f = fa.FeatureBlock("kern" if kern else "dist")
        for k in range(d["pre"]):
            f.statements.append(fa.Comment(f"# user {k}"))
        f._c20_calls = []
        lookups = {Direction[dn]: {f"kern_{dn}_{i}": fa.LookupBlock(f"kern_{dn}_{i}") for i in range(nl)} for dn, nl in d["dirs"].items()}
        ctx = SimpleNamespace(feaLanguagesByTag={k: list(v) for k, v in d["langs"].items()}, knownScripts=set(d["scripts"]))
        return {"context": ctx, "feature": f, "lookups": lookups}

    return Runtime(gen, build, call=lambda fn, a: R.traced(a["feature"], lambda: fn(a["context"], a["feature"], a["lookups"])))


CONTRACTS[WRITER2 + "#kern"].runtime = _reg2_cases(True)
CONTRACTS[WRITER2 + "#dist"].runtime = _reg2_cases(False)
