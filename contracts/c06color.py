"""C06 — colorGraph (greedy colouring of the mark-class conflict graph; one lookup per colour group) under deductive contract.

  #proper     two different vertices of one group are never adjacent (requires a symmetric adjacency, which is what the docstring asks for and what
              `_groupMarkClasses` builds)
  #partition  every vertex is in some group, every member of a group is a vertex, no vertex occurs twice

`collections.defaultdict(list)` is modelled as a heap object (class C06_DDList) whose field `d` is the dict: `g[k]` on a missing key inserts the
empty list (Python's __missing__), `g[k] = v` stores, `g.values()` lists the values in key order.  `sorted(adjacency)` uses the contract-local
model of contracts/c18gdef.py (the sorted list enumerates exactly the keys).  `firstAvailable` enters through its own proved contract.
"""
import z3

from pyvc import models as _models
from pyvc.api import INT, STR, CONTRACTS, Dict, List, Loop, Ref, Runtime, Set, cls, contract, trusted
from pyvc.core import Unsupported, Val, fresh, fresh_name, lift
from pyvc.symex import FuncRef

from .c06 import W
from .c18gdef import make_sorted

GD = Dict(INT, List(STR))


def _dd_getitem(ex, st, self, idx, node):
    """g[k]: the list stored under k; a missing key is first bound to [] (defaultdict(list).__missing__) == g.d.setdefault(k, [])"""
    d = ex.read_field(st, self, "d")
    empty = Val(List(STR), z3.Empty(List(STR).sort()))
    nd, val = _models.mutate(ex, st, d, "setdefault", [idx, empty], {}, node)
    ex.write_field(st, self, "d", nd, node)
    return val


def _dd_setitem(ex, st, self, idx, v, node):
    d = ex.read_field(st, self, "d")
    ex.write_field(st, self, "d", _models.set_item(ex, st, d, idx, v, node), node)


def _dd_values(ex, st, self, args, kwargs, node):
    """g.values(): the stored lists in key (insertion) order"""
    d = lift(ex.read_field(st, self, "d"))
    s = GD.sort()
    _models.dict_wf(st, GD, d)
    r = z3.Function("c06_dd_values", GD.sort(), List(List(STR)).sort())(d)
    if ("c06ddvalues", r.get_id()) not in st.ghost:
        st.ghost[("c06ddvalues", r.get_id())] = r
        i = z3.Int(fresh_name("vi"))
        st.assume(z3.Length(r) == z3.Length(s.keys(d)))
        st.assume(z3.ForAll([i], z3.Implies(z3.And(0 <= i, i < z3.Length(s.keys(d))), r[i] == z3.Select(s.map(d), s.keys(d)[i]))))
    return Val(List(List(STR)), r)


cls("C06_DDList", fields={"d": GD}, getitem=_dd_getitem, setitem=_dd_setitem, methods={"values": _dd_values},
    notes="collections.defaultdict(list) with int keys and lists of str as a heap object: field d = the dict; g[k] inserts [] for a missing key; values() in key order (python semantics)")


def _dd_ctor(ex, st, args, kwargs, node):
    o = ex.new_object(st, "C06_DDList")
    ex.write_field(st, o, "d", Val(GD, lift(Val.const({}), GD)), node)
    return o


# (the ORDER of the vertices plays no role for the clauses here, only that every vertex comes once: no string comparison on the paths)
SORTED_KEYS = make_sorted("keys", elements=True, order=False, distinct=True)
ADJ = Dict(STR, Set(STR))
CG = W + "colorGraph"
LOOP1 = "for node in sorted(adjacency)"
LOOP2 = "for (node, color) in colors.items()"
SYMMETRIC = "all(all(implies(y in adjacency, x in adjacency[y]) for y in adjacency[x]) for x in adjacency)"
PUT = "groups[color].append(node)"
# gnow / g0: ghost copies of the groups dict (gnow == the dict at every head of loop 2, g0 == the dict before this iteration's update);
# the one updated entry, position by position
_PUT_HINTS = [
    "implies(color in g0, cur == g0[color]) and implies(color not in g0, len(cur) == 0)",
    f"all(implies(c != color, c in {'{G}'} and {'{G}'}[c] == g0[c]) for c in g0) and all(c in g0 or c == color for c in {'{G}'})",
    # (cur: ghost, the list under `color` before the append — a plain name instead of the conditional term)
    f"color in {'{G}'} and {'{G}'}[color] == cur + [node]",
    # (re-binding: from here on the dict IS the one-entry update of its snapshot, a small term)
    "groups.d := {**g0, color: cur + [node]}",
    f"len({'{G}'}[color]) == len(cur) + 1",
    f"{'{G}'}[color][len(cur)] == node",
    f"all({'{G}'}[color][m] == cur[m] for m in range(len(cur)))",
]
_PUT_HINTS = [h.replace("{G}", "groups.d") for h in _PUT_HINTS]
# (engine request R17, done: the filter of the set comprehension at line 242 is on the path of the KeyError
# obligation of `colors[neighbour]`)
REGISTERED = True
COMMON = dict(
    props=["C06"] if REGISTERED else [], params={"adjacency": ADJ}, returns=List(List(STR)),
    globals={"sorted": SORTED_KEYS}, models={"collections.defaultdict": _dd_ctor},
    modifies=["C06_DDList.d"],  # (the local defaultdict object)
    locals={"colors": Dict(STR, INT), "usedNeighbourColors": Set(INT), "groups": Ref("C06_DDList"), "g0": GD, "gnow": GD, "cur": List(STR)},
    ghost_vars={"g0": (GD, "{}"), "gnow": (GD, "{}"), "cur": (List(STR), "[]")},
    merge_branches=False,

)
_PROPER = "all(all(implies(y in colors and x != y, colors[x] != colors[y]) for y in adjacency[x]) for x in colors)"
_G = "groups.d"

contract(
    CG,
    name="proper",
    **COMMON, dict_key_positions=False,
    requires=[SYMMETRIC],
    ensures={
        # no edge inside a group
        # (two DIFFERENT vertices; that no vertex occurs twice in a group is #disjoint's clause: together "positions a != b of a group are not adjacent")
        "no-edge-inside-a-group": "all(all(all(implies(result[g][a] != result[g][b], result[g][b] not in adjacency[result[g][a]]) for b in range(len(result[g]))) for a in range(len(result[g]))) for g in range(len(result)))",
    },
    canaries={"one-group": "len(result) <= 1"},
    ghost={PUT: ["g0 = gnow", "cur = g0[color] if color in g0 else []", "gnow = {**groups.d}"], "groups = defaultdict(list)": ["gnow = {**groups.d}"]},
    hints={PUT: _PUT_HINTS},
    loops={
        LOOP1: Loop(index="i", invariants={
            "vertices": "all(x in adjacency for x in colors)",
            "proper": _PROPER,
        }),
        LOOP2: Loop(index="t", seq="CK", invariants={
            "snapshot": f"gnow == {_G}",
            # every member of the group of colour c is a coloured vertex of colour c, and occurs once
            "members": f"all(all({_G}[c][m] in colors and colors[{_G}[c][m]] == c for m in range(len({_G}[c]))) for c in {_G})",
        }),
    },
)

_GHOST2 = {PUT: ["g0 = gnow", "cur = g0[color] if color in g0 else []", "gnow = {**groups.d}"], "groups = defaultdict(list)": ["gnow = {**groups.d}"]}
_MEMBERS = f"all(all({_G}[c][m] in colors and colors[{_G}[c][m]] == c for m in range(len({_G}[c]))) for c in {_G})"
contract(
    CG,
    name="disjoint",
    **COMMON, dict_key_positions=False,
    ensures={
        "only-vertices": "all(all(result[g][a] in adjacency for a in range(len(result[g]))) for g in range(len(result)))",
        "no-vertex-twice": "all(all(all(all(implies(g1 != g2 or a1 != a2, result[g1][a1] != result[g2][a2]) for a2 in range(len(result[g2]))) for g2 in range(len(result)))"
        " for a1 in range(len(result[g1]))) for g1 in range(len(result)))",
    },
    canaries={"one-group": "len(result) <= 1"},
    ghost=_GHOST2,
    hints={PUT: _PUT_HINTS + [
        # the vertex filed now is in no group yet (the groups hold earlier keys of `colors`, and dict keys are distinct)
        "all(all(g0[c][m] != node for m in range(len(g0[c]))) for c in g0)",
    ]},
    loops={
        LOOP1: Loop(index="i", invariants={"vertices": "all(x in adjacency for x in colors)"}),
        LOOP2: Loop(index="t", seq="CK", invariants={
            "snapshot": f"gnow == {_G}",
            "members": _MEMBERS,
            "from-prefix": f"all(all(any(CK[u] == {_G}[c][m] for u in range(t)) for m in range(len({_G}[c]))) for c in {_G})",
            "once": f"all(all(all(implies(m1 < m2, {_G}[c][m1] != {_G}[c][m2]) for m2 in range(len({_G}[c]))) for m1 in range(len({_G}[c]))) for c in {_G})",
        }),
    },
)

contract(
    CG,
    name="covering",
    **COMMON,
    ensures={"every-vertex-grouped": "all(any(any(result[g][a] == x for a in range(len(result[g]))) for g in range(len(result))) for x in adjacency)"},
    canaries={"one-group": "len(result) <= 1"},
    ghost=_GHOST2,
    hints={
        PUT: _PUT_HINTS + [f"all(c in {_G} and len(g0[c]) <= len({_G}[c]) and all({_G}[c][m] == g0[c][m] for m in range(len(g0[c]))) for c in g0)"],
        # after the first loop every vertex has a colour
        "for node in sorted(adjacency):": ["all(x in colors for x in adjacency)"],
    },
    loops={
        LOOP1: Loop(index="i", seq="S", invariants={"coloured-so-far": "all(S[a] in colors for a in range(i))"}),
        LOOP2: Loop(index="t", seq="CK", invariants={
            "snapshot": f"gnow == {_G}",
            "placed": f"all(colors[CK[u]] in {_G} and any({_G}[colors[CK[u]]][m] == CK[u] for m in range(len({_G}[colors[CK[u]]]))) for u in range(t))",
        }),
    },
)


# ---- run-time side -----------------------------------------------------------------------------------------------------------------------
def _graph_cases(rng, n):
    names = ["MC_top", "MC_bottom", "MC_a", "MC_b", "MC_c", "MC_d", "MC_e"]
    out = [{"v": [], "e": []}, {"v": ["MC_top"], "e": []}]
    while len(out) < n:
        vs = names[: rng.randint(1, len(names))]
        es = [[a, b] for i, a in enumerate(vs) for b in vs[i + 1:] if rng.random() < rng.choice([0.2, 0.5, 0.8])]
        out.append({"v": vs, "e": es})
    return out[:n]


def _graph_build(d):
    adj = {v: set() for v in d["v"]}
    for a, b in d["e"]:
        adj[a].add(b)
        adj[b].add(a)
    return {"adjacency": adj}


for _v in ("proper", "disjoint", "covering"):
    CONTRACTS[CG + "#" + _v].runtime = Runtime(_graph_cases, _graph_build)
