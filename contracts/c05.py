"""C05 — generated kerning applies the UFO kerning value to every pair, once."""
from pyvc.api import BOOL, CLASSES, CONTRACTS, INT, REAL, STR, Const, Dict, List, Loop, Map, Named, Opt, Ref, Runtime, Set, Tuple, Union, cls, contract, lemma, record_init, specfn, trusted

# =====================================================================================================
# util.quantize: the quantised value is the multiple of the step nearest to the UFO value (ties upwards)

contract(
    "ufo2ft.util:quantize",
    props=["C05", "C10"],
    params={"number": REAL, "factor": INT},
    returns=REAL,
    # options.quantization: the writer's documented option ("rounded to the nearest multiple of the quantization
    # value"), default 1; a zero step raises ZeroDivisionError in the code, a negative one is meaningless
    requires=["factor >= 1"],
    ensures={
        # a whole multiple of the step ...
        "multiple": "any(result == factor * k for k in [k5_round(number / factor)])",
        # ... nearest to the value, ties going up
        "nearest": "2 * (result - number) <= factor and 2 * (number - result) < factor",
        # the same value under the name used by the callers' contracts
        "def": "result == k5_quant(number, factor)",
    },
    canaries={"identity": "result == number"},
)


@specfn(INT, x=REAL)
def k5_round(x):
    """the integer nearest to x, halves upwards (OpenType rounding)"""
    from fontTools.misc.roundTools import otRound

    return otRound(x)


@specfn(REAL, v=REAL, q=INT)
def k5_quant(v, q):
    """v rounded to the nearest multiple of the step q, ties upwards"""
    from fontTools.misc.roundTools import otRound

    if q < 1:
        # never taken (q >= 1 everywhere).  The self-reference makes the engine keep k5_quant as a symbol whose
        # definition is instantiated at ground arguments only, so that loop invariants quantifying over list
        # positions do not drag non-linear arithmetic under the quantifier.
        return k5_quant(v, 1)
    return q * otRound(v / q)


# =====================================================================================================
# class vocabulary of the kern writer (only what the functions under contract touch)

cls("GlyphTuple", isa=("tuple",), notes="a kerning class: an immutable tuple of glyph names, seen as an atom (the functions under contract never look inside one)")
GCLS = Ref("GlyphTuple")
SIDE = Union(STR, GCLS)  # a glyph name, or a class
from pyvc.api import TupleOf  # noqa: E402

SIDE_T = Union(STR, TupleOf(STR))  # the same with the class as a real variable-length tuple (newer engine type)
KP = Named("KerningPair", side1=SIDE, side2=SIDE, value=REAL)  # frozen dataclass = immutable value


@trusted(
    "ufo2ft.featureWriters.kernFeatureWriter.KerningPair",
    "dataclass-generated constructor: KerningPair(side1, side2, value) is the immutable record of its three arguments (stdlib dataclasses semantics)",
)
def _kp_new(ex, st, args, kwargs, node):
    from pyvc.core import Val, lift

    names = ["side1", "side2", "value"]
    bound = dict(zip(names, args))
    bound.update(kwargs)
    return Val(KP, KP.sort().mk(*[lift(bound[n], t) for n, t in zip(names, KP.items)]))


cls("KernOpts", fields={"quantization": INT, "ignoreMarks": BOOL}, notes="writer options namespace (SimpleNamespace)")
cls("KFont", fields={"kerning": Dict(Tuple(STR, STR), REAL), "groups": Dict(STR, Set(STR))},
    views={"kerning": lambda o: dict(o.kerning), "groups": lambda o: {k: set(v) for k, v in o.groups.items()}},
    notes="source UFO as the kern writer reads it: kerning (pair -> value), groups (name -> members, read as a set)")
cls("KernCtx", fields={"isVariable": BOOL, "font": Ref("KFont"), "glyphSet": Set(STR),
                       "side1Membership": Dict(STR, STR), "side2Membership": Dict(STR, STR)},
    views={"glyphSet": lambda o: set(o.glyphSet.keys())},
    notes="feature-writer context namespace; glyphSet (OrderedDict name -> glyph) is read through `in` only: a set of names")
cls("KernWriter", fields={"context": Ref("KernCtx"), "options": Ref("KernOpts")},
    repo="ufo2ft.featureWriters.kernFeatureWriter:KernFeatureWriter")


# ---- getKerningPairs ------------------------------------------------------------------------------------


@specfn(BOOL, k=Tuple(STR, STR), v=REAL, c1=Dict(STR, GCLS), c2=Dict(STR, GCLS), gs=Set(STR))
def k5_kept(k, v, c1, c2, gs):
    """the kerning item survives: each side is a kept group or a glyph of the font; class-class zeros are redundant"""
    return (k[0] in c1 or k[0] in gs) and (k[1] in c2 or k[1] in gs) and not (k[0] in c1 and k[1] in c2 and v == 0)


@specfn(KP, k=Tuple(STR, STR), v=REAL, c1=Dict(STR, GCLS), c2=Dict(STR, GCLS), q=INT)
def k5_resolved(k, v, c1, c2, q):
    """sides resolved to their member tuples, value rounded to the quantisation step"""
    from ufo2ft.featureWriters.kernFeatureWriter import KerningPair

    val = k5_quant(v, q)
    # (conditional expressions, not statements: the symbolic reading must stay total under vacuous quantifier guards)
    return (
        (KerningPair(c1[k[0]], c2[k[1]], val) if k[1] in c2 else KerningPair(c1[k[0]], k[1], val))
        if k[0] in c1
        else (KerningPair(k[0], c2[k[1]], val) if k[1] in c2 else KerningPair(k[0], k[1], val))
    )


def _pairs_contract(target, ctx, opts, params, requires):
    """getKerningPairs exists twice (KernFeatureWriter.getKerningPairs and kernFeatureWriter2.get_kerning_pairs, same
    loop); one contract text, instantiated with the expression that denotes the context / the options.

    Two variants per function: `only` (nothing invented, nothing twice: ghost `src` maps emitted position -> kerning index)
    and `all` (nothing lost: ghost `pos` maps kerning index -> emitted position).  Together in one proof the two maps are
    inverse to each other, and z3's E-matching chases src[pos[src[..]]] terms until the time-out."""
    KERN = f"{ctx}.font.kerning"
    ARGS = "side1Classes, side2Classes"
    KEPT = f"k5_kept({{k}}, {KERN}[{{k}}], {ARGS}, {ctx}.glyphSet)"
    RES = f"k5_resolved({{k}}, {KERN}[{{k}}], {ARGS}, {opts}.quantization)"
    common = dict(props=["C05"], params=params, returns=List(KP), requires=requires + [f"{opts}.quantization >= 1"],  # as for quantize
                  locals={"result": List(KP)},
                  merge_branches=False)  # the paths of the filters stay apart: smaller terms
    APPEND = "result.append(KerningPair(side1, side2, value))"
    LOOP = "for ((side1, side2), value) in kerning.items()"
    contract(
        target, name="only", **common,
        ensures={
            # nothing invented: every emitted pair is a surviving kerning item, resolved and quantised
            "only": "all(any(" + KEPT.format(k="k") + " and result[n] == " + RES.format(k="k") + f" for k in {KERN}) for n in range(len(result)))",
            # at most one pair per kerning item (a kerning item is applied once)
            "count": f"len(result) <= len({KERN})",
        },
        canaries={"keeps-everything": f"len(result) == len({KERN})"},
        ghost_vars={"src": (List(INT), "[]")},
        ghost={APPEND: ["src = src + [i]"]},
        loops={LOOP: Loop(index="i", seq="K", invariants={
            "len": "len(src) == len(result) and len(src) <= i",
            "src": "all(0 <= src[n] and src[n] < i and " + KEPT.format(k="K[src[n]]") + " and result[n] == " + RES.format(k="K[src[n]]") + " for n in range(len(src)))",
            # each item is emitted at most once, in kerning order (two positions, not n and n + 1: a successor term under
            # the quantifier is a matching loop)
            "once": "all(all(implies(a < b, src[a] < src[b]) for b in range(len(src))) for a in range(len(src)))",
        })},
    )
    contract(
        target, name="all", **common,
        ensures={
            # nothing lost: every surviving kerning item is emitted
            "all": "all(implies(" + KEPT.format(k=f"list({KERN})[a]") + ", any(result[n] == " + RES.format(k=f"list({KERN})[a]") + f" for n in range(len(result)))) for a in range(len({KERN})))",
        },
        canaries={"drops-everything": "len(result) == 0"},
        ghost_vars={"pos": (Dict(INT, INT), "{}")},
        ghost={APPEND: ["pos = {**pos, i: len(result) - 1}"]},
        loops={LOOP: Loop(index="i", seq="K", invariants={
            "cover": "all(implies(" + KEPT.format(k="K[a]") + ", a in pos and 0 <= pos[a] and pos[a] < len(result) and result[pos[a]] == " + RES.format(k="K[a]") + ") for a in range(i))",
        })},
    )


_pairs_contract(
    "ufo2ft.featureWriters.kernFeatureWriter:KernFeatureWriter.getKerningPairs", "self.context", "self.options",
    {"self": Ref("KernWriter"), "side1Classes": Dict(STR, GCLS), "side2Classes": Dict(STR, GCLS)},
    ["not self.context.isVariable"],  # static fonts; the designspace path is getVariableKerningPairs (C10)
)
# the copy in the alternative writer (module-level function; the caller extract_kerning_data tests context.isVariable)
_pairs_contract(
    "ufo2ft.featureWriters.kernFeatureWriter2:get_kerning_pairs", "context", "options",
    {"context": Ref("KernCtx"), "options": Ref("KernOpts"), "side1Classes": Dict(STR, GCLS), "side2Classes": Dict(STR, GCLS)},
    [],
)


# =====================================================================================================
# feaLib AST vocabulary of the rule builders (the contracts on _makePairPosRule / make_pairpos_rule are further down, after
# the KerningPair class with sides of either kind)

from pyvc.core import Val as _Val  # noqa: E402

cls("GlyphClassDef", dynamic=True, notes="feaLib ast.GlyphClassDefinition (assumed attribute bag)")
cls("FeaGlyphs", fields={"kind": STR, "glyph": SIDE_T, "glyphclass": Ref("GlyphClassDef")},
    views={"kind": lambda o: "class" if type(o).__name__ == "GlyphClassName" else "name"},
    notes="feaLib ast.GlyphName / ast.GlyphClassName: one class, `kind` records which constructor built it (assumed)")
cls("ValueRecord", fields={"xPlacement": Opt(REAL), "yPlacement": Opt(INT), "xAdvance": Opt(REAL), "yAdvance": Opt(INT)}, dynamic=True,
    methods={"__init__": record_init("xPlacement", "yPlacement", "xAdvance", "yAdvance")},
    notes="feaLib ast.ValueRecord: the constructor stores its arguments (assumed)")
cls("PairPosStatement", fields={"glyphs1": Ref("FeaGlyphs"), "valuerecord1": Opt(Ref("ValueRecord")), "glyphs2": Ref("FeaGlyphs"),
                                "valuerecord2": Opt(Ref("ValueRecord")), "enumerated": BOOL},
    methods={"__init__": record_init("glyphs1", "valuerecord1", "glyphs2", "valuerecord2", enumerated=False)},
    notes="feaLib ast.PairPosStatement: the constructor stores its arguments (assumed)")


@trusted("fontTools.feaLib.ast.GlyphName", "GlyphName(g) is a fresh glyph reference naming glyph g")
def _fea_glyphname(ex, st, args, kwargs, node):
    o = ex.new_object(st, "FeaGlyphs")
    ex.write_field(st, o, "kind", _Val.const("name"), node)
    ex.write_field(st, o, "glyph", args[0], node)
    return o


@trusted("fontTools.feaLib.ast.GlyphClassName", "GlyphClassName(c) is a fresh reference to the glyph class definition c")
def _fea_classname(ex, st, args, kwargs, node):
    o = ex.new_object(st, "FeaGlyphs")
    ex.write_field(st, o, "kind", _Val.const("class"), node)
    ex.write_field(st, o, "glyphclass", args[0], node)
    return o


_KINDS = {"gg": (False, False), "gc": (False, True), "cg": (True, False), "cc": (True, True)}
_KP_MOD = "ufo2ft.featureWriters.kernFeatureWriter"


# =====================================================================================================
# Lemmas: the ordering key, and why first-match over a kind-sorted rule list is the UFO precedence
#
# A rule / ordering key is abstracted to (firstIsClass, secondIsClass, side1, side2[, value]); a side is the rank of
# the glyph name / member tuple among the sides of its type (str and tuple comparison are strict total orders; the
# code never compares a str with a tuple because the two kind bits are compared first).  That KerningPair.__lt__
# computes exactly this key order is checked exhaustively on a finite domain by the hook (bounded).

KEY = Tuple(BOOL, BOOL, INT, INT)
RULE = Tuple(BOOL, BOOL, INT, INT, REAL)


@specfn(INT, c1=BOOL, c2=BOOL)
def k5_kind_rank(c1, c2):
    """glyph-glyph 0 < glyph-class 1 < class-glyph 2 < class-class 3"""
    return (2 if c1 else 0) + (1 if c2 else 0)


@specfn(BOOL, r=RULE, g1=INT, g2=INT, G1=INT, G2=INT)
def k5_matches(r, g1, g2, G1, G2):
    """rule r covers the glyph pair (g1, g2) whose kern1 / kern2 groups are G1 / G2 (-1: in no group)"""
    return (r[2] == (G1 if r[0] else g1)) and (r[3] == (G2 if r[1] else g2)) and (G1 >= 0 or not r[0]) and (G2 >= 0 or not r[1])


lemma(
    "C05.lemma.order_key",
    props=["C05"],
    vars={"a": KEY, "b": KEY, "c": KEY},
    hyps=[],
    concl={
        "irreflexive": "not (a < a)",
        "transitive": "implies(a < b and b < c, a < c)",
        "total": "a < b or b < a or a == b",
        # the kind decides first, whatever the sides are: glyph-glyph < glyph-class < class-glyph < class-class
        "kind-first": "implies(k5_kind_rank(a[0], a[1]) < k5_kind_rank(b[0], b[1]), a < b)",
        "kind-monotone": "implies(a < b, k5_kind_rank(a[0], a[1]) <= k5_kind_rank(b[0], b[1]))",
    },
    canaries={"sides-first": "implies(a[2] < b[2], a < b)"},
)

_M = "k5_matches(R[{i}], g1, g2, G1, G2)"
_RK = "k5_kind_rank(R[{i}][0], R[{i}][1])"
lemma(
    "C05.lemma.precedence",
    props=["C05"],
    vars={"R": List(RULE), "g1": INT, "g2": INT, "G1": INT, "G2": INT, "f": INT},
    hyps=[
        # the rules of one lookup are sorted by the ordering key, hence by kind (lemma order_key, kind-monotone)
        "all(all(implies(x < y, " + _RK.format(i="x") + " <= " + _RK.format(i="y") + ") for y in range(len(R))) for x in range(len(R)))",
        # kerning keys are unique (a dict) and groups of one side are disjoint: two different rules never have the same sides
        "all(all(implies(x != y, not (R[x][0] == R[y][0] and R[x][1] == R[y][1] and R[x][2] == R[y][2] and R[x][3] == R[y][3])) for y in range(len(R))) for x in range(len(R)))",
        # PairPos semantics (trusted): the first rule covering the pair applies, and only that one
        "0 <= f and f < len(R) and " + _M.format(i="f"),
        "all(not " + _M.format(i="x") + " for x in range(f))",
    ],
    concl={
        # the applied rule is the most specific one covering the pair (UFO precedence glyph-glyph, glyph-group, group-glyph, group-group) ...
        "most-specific": "all(implies(" + _M.format(i="x") + ", " + _RK.format(i="f") + " <= " + _RK.format(i="x") + ") for x in range(len(R)))",
        # ... and it is the only covering rule of that kind, so its value is THE UFO value of the pair
        "unique": "all(implies(" + _M.format(i="x") + " and " + _RK.format(i="x") + " == " + _RK.format(i="f") + ", x == f) for x in range(len(R)))",
    },
    canaries={"least-specific": "all(implies(" + _M.format(i="x") + ", " + _RK.format(i="f") + " >= " + _RK.format(i="x") + ") for x in range(len(R)))"},
)

lemma(
    "C05.lemma.zero_class_class_redundant",
    props=["C05"],
    vars={"R": List(RULE), "g1": INT, "g2": INT, "G1": INT, "G2": INT, "f": INT},
    hyps=[
        "all(all(implies(x < y, " + _RK.format(i="x") + " <= " + _RK.format(i="y") + ") for y in range(len(R))) for x in range(len(R)))",
        "0 <= f and f < len(R) and " + _M.format(i="f"),
        "all(not " + _M.format(i="x") + " for x in range(f))",
        # the first covering rule is a zero-valued class-class rule
        _RK.format(i="f") + " == 3 and R[f][4] == 0",
    ],
    concl={
        # ... then nothing more specific covers the pair: removing the rule leaves the applied amount (0 = no rule) unchanged
        "nothing-shadowed": "all(implies(" + _M.format(i="x") + ", " + _RK.format(i="x") + " == 3) for x in range(len(R)))",
    },
    # a zero-valued glyph-class rule is NOT redundant: it may shadow a class-class rule (cf. getKerningPairs `cover`)
    canaries={"glyph-class-too": "all(implies(" + _M.format(i="x") + ", " + _RK.format(i="x") + " <= 1) for x in range(len(R)))"},
)


# ---- run-time harnesses (cross-check on real objects, replay) ---------------------------------------------


def _quant_cases(rng, n):
    vals = [0, 0.5, -0.5, 1.5, 2.5, -2.5, 7.4, 7.5, 7.6, -12.5, 12.5, 100, -37.49, 0.49999, 5, -5, 15, 25]
    out = [{"number": v, "factor": f} for f in (1, 2, 5, 10, 3) for v in vals]
    rng.shuffle(out)
    return out[:n]


CONTRACTS["ufo2ft.util:quantize"].runtime = Runtime(_quant_cases, lambda d: dict(d))


def _writer_for(case):
    """A real KernFeatureWriter with the part of its context that getKerningGroups / getKerningPairs read."""
    from collections import OrderedDict
    from types import SimpleNamespace

    from ufo2ft.featureWriters.kernFeatureWriter import KernFeatureWriter
    from vcheck.hooks import c05 as h

    ufo = h.build_ufo(case)
    w = KernFeatureWriter(quantization=case.get("quantization", 1))
    glyphs = [g for g in ufo.keys() if g not in case.get("skip", [])]
    w.context = SimpleNamespace(isVariable=False, font=ufo, glyphSet=OrderedDict((g, ufo[g]) for g in glyphs))
    return w


def _pairs_cases(rng, n):
    from vcheck.hooks import c05 as h

    out = []
    for k in range(n):
        c = h.gen_case(rng, k)
        if k % 4 == 0 and c["glyphs"]:
            c["skip"] = [rng.choice(c["glyphs"])]  # a glyph that exists in the UFO but is not exported
        out.append(c)
    return out


def _pairs_build(case):
    w = _writer_for(case)
    s1, s2 = w.getKerningGroups()
    return {"self": w, "side1Classes": s1, "side2Classes": s2}


for _v in ("only", "all"):
  CONTRACTS[f"ufo2ft.featureWriters.kernFeatureWriter:KernFeatureWriter.getKerningPairs#{_v}"].runtime = Runtime(
    _pairs_cases, _pairs_build, call=lambda fn, a: fn(a["self"], a["side1Classes"], a["side2Classes"])
  )


def _pairs2_build(case):
    """the same inputs for the copy in kernFeatureWriter2 (module-level functions over a context namespace)"""
    from ufo2ft.featureWriters import kernFeatureWriter2 as k2

    w = _writer_for(case)
    s1, s2 = k2.get_kerning_groups(w.context)
    return {"context": w.context, "options": w.options, "side1Classes": s1, "side2Classes": s2}


for _v in ("only", "all"):
    CONTRACTS[f"ufo2ft.featureWriters.kernFeatureWriter2:get_kerning_pairs#{_v}"].runtime = Runtime(_pairs_cases, _pairs2_build)


def _wrap_glyphs(o):
    from pyvc.rt import Proxy

    return Proxy(o, CLASSES["FeaGlyphs"])


CLASSES["PairPosStatement"].views.update(glyphs1=lambda o: _wrap_glyphs(o.glyphs1), glyphs2=lambda o: _wrap_glyphs(o.glyphs2))


def _rule_cases(kind):
    def gen(rng, n):
        out = [{"kind": kind, "rtl": r, "value": v} for r in (False, True) for v in (-50, 0, 12.5, 7)]
        return out[:n]

    return gen


def _rule_build(d):
    from ufo2ft.featureWriters import ast
    from ufo2ft.featureWriters.kernFeatureWriter import KernFeatureWriter, KerningPair

    c1, c2 = _KINDS[d["kind"]]
    # class tuples are atoms (objects) in the contract vocabulary: the pair's side IS the key object of the class map, as in
    # the writer (makeAllGlyphClassDefinitions keys the maps by pair.side1 / pair.side2 themselves)
    k1, k2 = ("A", "Aacute"), ("V", "W")
    s1, s2 = (k1 if c1 else "A"), (k2 if c2 else "V")
    defs1 = {k1: ast.makeGlyphClassDefinition("kern1.A", ["A", "Aacute"])}
    defs2 = {k2: ast.makeGlyphClassDefinition("kern2.V", ["V", "W"])}
    return {"self": KernFeatureWriter(), "pair": KerningPair(s1, s2, d["value"]), "side1Classes": defs1, "side2Classes": defs2, "rtl": d["rtl"]}


# ---- replay entry of the end-to-end observer (vcheck/hooks/c05.py): `./check replay out/C05/replay/e2e.*.json` ----
# props=[]: never part of a deductive check (the function is not executed symbolically); it only gives the replay
# command a registered (contract, case) pair.  The observer itself runs from the hook.


def _e2e_gen(rng, n):
    from vcheck.hooks import c05 as h

    return h.gen_cases(rng, n)


def _e2e_call(fn, a):
    from vcheck.hooks import c05 as h

    return h.observe_case(a["case"])


contract(
    f"{_KP_MOD}:KernFeatureWriter._write",
    name="e2e-observer",
    props=[],
    params={},
    bounded_ensures={"no-violation": "result == []"},
    runtime=Runtime(_e2e_gen, lambda case: {"case": case}, call=_e2e_call),
)


# =====================================================================================================
# KerningPair with sides of either kind in ONE class (variable-length tuple type of the engine): the ordering
#
cls("KPairT", fields={"side1": SIDE_T, "side2": SIDE_T, "value": REAL}, repo=f"{_KP_MOD}:KerningPair", isa=("KerningPair",),
    notes="KerningPair (frozen dataclass): side1 / side2 are a glyph name or a tuple of glyph names")
for _prop, _side in (("firstIsClass", "side1"), ("secondIsClass", "side2")):
    contract(
        f"{_KP_MOD}:KerningPair.{_prop}",
        name="KPairT",
        props=["C05"],
        params={"self": Ref("KPairT")},
        returns=BOOL,
        ensures={"is-tuple": f"result == isinstance(self.{_side}, tuple)"},
        canaries={"never": "not result"},
    )


@specfn(INT, s=SIDE_T)
def k5_is_class(s):
    return 1 if isinstance(s, tuple) else 0


_RANK = "(2 * k5_is_class({p}.side1) + k5_is_class({p}.side2))"
contract(
    f"{_KP_MOD}:KerningPair.__lt__",
    props=["C05"],
    params={"self": Ref("KPairT"), "other": Ref("KPairT")},
    returns=BOOL,
    ensures={
        # the kind decides first: glyph-glyph < glyph-class < class-glyph < class-class ...
        "kind-first": "implies(2 * k5_is_class(self.side1) + k5_is_class(self.side2) < 2 * k5_is_class(other.side1) + k5_is_class(other.side2), result)",
        "kind-first-rev": "implies(2 * k5_is_class(self.side1) + k5_is_class(self.side2) > 2 * k5_is_class(other.side1) + k5_is_class(other.side2), not result)",
        "irreflexive": "implies(self.side1 == other.side1 and self.side2 == other.side2, not result)",
        # ... and within one kind the sides decide, first side first (str / tuple comparison of Python): the whole result
        "order": "result == (" + _RANK.format(p="self") + " < " + _RANK.format(p="other") + " or (" + _RANK.format(p="self") + " == " + _RANK.format(p="other")
                 + " and (self.side1 < other.side1 or (self.side1 == other.side1 and self.side2 < other.side2))))",
    },
    canaries={"always": "result"},
)


def _lt_cases(rng, n):
    sides = ["a", "b", ["a"], ["a", "b"], ["b"], []]
    allc = [{"s": [s1, s2], "o": [o1, o2]} for s1 in sides for s2 in sides for o1 in sides for o2 in sides]
    rng.shuffle(allc)
    return allc[:n]


def _lt_build(d):
    from ufo2ft.featureWriters.kernFeatureWriter import KerningPair

    def side(x):
        return tuple(x) if isinstance(x, list) else x

    return {"self": KerningPair(side(d["s"][0]), side(d["s"][1]), 0), "other": KerningPair(side(d["o"][0]), side(d["o"][1]), -5)}


CONTRACTS[f"{_KP_MOD}:KerningPair.__lt__"].runtime = Runtime(_lt_cases, _lt_build, call=lambda fn, a: fn(a["self"], a["other"]))
for _prop in ("firstIsClass", "secondIsClass"):
    CONTRACTS[f"{_KP_MOD}:KerningPair.{_prop}#KPairT"].runtime = Runtime(_lt_cases, lambda d: {"self": _lt_build(d)["self"]}, call=lambda fn, a: fn.fget(a["self"]))


# =====================================================================================================
# _splitBaseAndMarkPairs (and the copy kernFeatureWriter2.split_base_and_mark_pairs): base/mark disentangling


def _kp_new_obj(ex, st, args, kwargs, node):
    """dataclass-generated constructor (as _kp_new), producing a KPairT object"""
    names = ["side1", "side2", "value"]
    bound = dict(zip(names, args))
    bound.update(kwargs)
    o = ex.new_object(st, "KPairT")
    for n in names:
        ex.write_field(st, o, n, ex.deopt(bound[n], st, node), node)  # (an Optional argument must be present: obligation)
    return o


from pyvc.rt import implies  # noqa: E402,F401  (spec functions run natively at run time)


@specfn(BOOL, qs=SIDE_T, ps=SIDE_T, marks=Set(STR), m=BOOL)
def k5_side_part(qs, ps, marks, m):
    """qs is the mark part (m) / the base part (not m) of the side ps: for a class the tuple of exactly its marks resp.
    non-marks (still a class, whatever its size), for a single glyph the glyph itself if it is of that sort"""
    return (
        (isinstance(qs, tuple) and all(x in ps and (x in marks) == m for x in qs) and all(implies((x in marks) == m, x in qs) for x in ps))
        if isinstance(ps, tuple)
        else ((not isinstance(qs, tuple)) and qs == ps and (ps in marks) == m)
    )


@specfn(BOOL, ps=SIDE_T, marks=Set(STR), m=BOOL)
def k5_has_part(ps, marks, m):
    """the side ps has a glyph of that sort (mark if m, base otherwise)"""
    return any((x in marks) == m for x in ps) if isinstance(ps, tuple) else (ps in marks) == m


_PART = "({q}.value == {p}.value and k5_side_part({q}.side1, {p}.side1, marks, {m1}) and k5_side_part({q}.side2, {p}.side2, marks, {m2}))"
_NONEMPTY = "(implies(isinstance({q}.side1, tuple), len({q}.side1) >= 1) and implies(isinstance({q}.side2, tuple), len({q}.side2) >= 1))"
_SAME = "({a}.side1 == old({a}.side1) and {a}.side2 == old({a}.side2) and {a}.value == old({a}.value))"


def _split_contract(target, params, props):
    B, M = "result[0]", "result[1]"

    def covered(m1, m2, lst):
        return ("all(implies(k5_has_part(pairs[a].side1, marks, " + m1 + ") and k5_has_part(pairs[a].side2, marks, " + m2 + "), any("
                + _PART.format(q=lst + "[n]", p="pairs[a]", m1=m1, m2=m2) + " for n in range(len(" + lst + ")))) for a in range(len(pairs)))")

    return contract(
        target,
        name="full",
        props=props,
        params=params,
        returns=Tuple(List(Ref("KPairT")), List(Ref("KPairT"))),
        models={f"{_KP_MOD}.KerningPair": _kp_new_obj},
        # heap well-formedness: the input pairs exist before the call
        requires=["all(not fresh(pairs[a]) for a in range(len(pairs)))"],
        # new KerningPair objects are created; the input pairs keep their content (clause `input-untouched`)
        modifies=["KPairT.side1", "KPairT.side2", "KPairT.value"],
        ensures={
            "input-untouched": "all(" + _SAME.format(a="pairs[a]") + " for a in range(len(pairs)))",
            # no marks in the font: everything is base-to-base
            "no-marks": f"implies(marks == set(), {B} == pairs and len({M}) == 0)",
            # every base pair is the base-to-base part of an input pair: same value, same kind of each side (a class stays a
            # class), exactly the non-mark glyphs of each side
            "base-sound": f"implies(marks != set(), all(any(" + _PART.format(q=B + "[n]", p="pairs[a]", m1="False", m2="False") + f" for a in range(len(pairs))) for n in range(len({B}))))",
            # every mark pair is the base-to-mark, mark-to-base or mark-to-mark part of an input pair
            "mark-sound": f"implies(marks != set(), all(any(" + " or ".join(_PART.format(q=M + "[n]", p="pairs[a]", m1=m1, m2=m2) for m1, m2 in (("False", "True"), ("True", "False"), ("True", "True")))
                          + f" for a in range(len(pairs))) for n in range(len({M}))))",
            # no empty class is produced
            "non-empty": f"implies(marks != set(), all({_NONEMPTY.format(q=B + '[n]')} for n in range(len({B}))) and all({_NONEMPTY.format(q=M + '[n]')} for n in range(len({M}))))",
        },
        # run-time only (bounded): nothing is lost - every non-empty part of every input pair is in the right list, so a glyph pair
        # covered by an input pair is covered by exactly the part with its two glyphs' sorts (exceptions stay together)
        bounded_ensures={
            "base-complete": "implies(marks != set(), " + covered("False", "False", B) + ")",
            "mark-complete": "implies(marks != set(), " + " and ".join(covered(m1, m2, M) for m1, m2 in (("False", "True"), ("True", "False"), ("True", "True"))) + ")",
        },
        canaries={"no-mark-pairs": f"len({M}) == 0", "same-length": f"len({B}) == len(pairs)"},
        locals={"basePairs": List(Ref("KPairT")), "markPairs": List(Ref("KPairT"))},
        merge_branches=False,
        # ghost: for every produced pair the index of the input pair it comes from and which part it is
        ghost_vars={"sb": (List(INT), "[]"), "sm": (List(INT), "[]"), "k1": (List(BOOL), "[]"), "k2": (List(BOOL), "[]")},
        ghost={
            "basePairs.append(KerningPair(side1Bases, side2Bases, value=pair.value))": ["sb = sb + [i]"],
            "markPairs.append(KerningPair(side1Bases, side2Marks, value=pair.value))": ["sm = sm + [i]", "k1 = k1 + [False]", "k2 = k2 + [True]"],
            "markPairs.append(KerningPair(side1Marks, side2Bases, value=pair.value))": ["sm = sm + [i]", "k1 = k1 + [True]", "k2 = k2 + [False]"],
            "markPairs.append(KerningPair(side1Marks, side2Marks, value=pair.value))": ["sm = sm + [i]", "k1 = k1 + [True]", "k2 = k2 + [True]"],
        },
        loops={"for pair in pairs": Loop(index="i", invariants={
            "input": "all(" + _SAME.format(a="pairs[a]") + " and not fresh(pairs[a]) for a in range(len(pairs)))",
            "lens": "len(sb) == len(basePairs) and len(sm) == len(markPairs) and len(k1) == len(sm) and len(k2) == len(sm)",
            "new-base": "all(fresh(basePairs[n]) and allocated(basePairs[n]) for n in range(len(basePairs)))",
            "new-mark": "all(fresh(markPairs[n]) and allocated(markPairs[n]) for n in range(len(markPairs)))",
            "base": "all(0 <= sb[n] and sb[n] < i and " + _PART.format(q="basePairs[n]", p="pairs[sb[n]]", m1="False", m2="False") + " and " + _NONEMPTY.format(q="basePairs[n]") + " for n in range(len(basePairs)))",
            "mark": "all(0 <= sm[n] and sm[n] < i and (k1[n] or k2[n]) and " + _PART.format(q="markPairs[n]", p="pairs[sm[n]]", m1="k1[n]", m2="k2[n]") + " and " + _NONEMPTY.format(q="markPairs[n]") + " for n in range(len(markPairs)))",
        })},
    )


# NOT registered (props=[]): the function is executable by the engine now and 196 of the 225 obligations discharge, but obligation
# generation takes 3 minutes (30 paths through the four `if side..Bases and side..Marks` tests, each with the engine's
# in-process feasibility checks) and the `base` / `mark` step obligations of the paths that append time out.
_split_contract(f"{_KP_MOD}:KernFeatureWriter._splitBaseAndMarkPairs", {"self": Ref("KernWriter"), "pairs": List(Ref("KPairT")), "marks": Set(STR)}, [])
_split_contract(f"{_KP_MOD}2:split_base_and_mark_pairs", {"pairs": List(Ref("KPairT")), "marks": Set(STR)}, [])

# Registered, light version: no exception on any path (in particular no comparison / membership test of a str against a tuple:
# the side is always of the sort the branch assumes), the shortcut for fonts without marks, and the frame.
for _tgt, _pp in ((f"{_KP_MOD}:KernFeatureWriter._splitBaseAndMarkPairs", {"self": Ref("KernWriter")}), (f"{_KP_MOD}2:split_base_and_mark_pairs", {})):
    contract(
        _tgt,
        props=["C05"],
        params={**_pp, "pairs": List(Ref("KPairT")), "marks": Set(STR)},
        returns=Tuple(List(Ref("KPairT")), List(Ref("KPairT"))),
        models={f"{_KP_MOD}.KerningPair": _kp_new_obj},
        requires=["all(not fresh(pairs[a]) for a in range(len(pairs)))"],
        modifies=["KPairT.side1", "KPairT.side2", "KPairT.value"],
        ensures={
            "input-untouched": "all(" + _SAME.format(a="pairs[a]") + " for a in range(len(pairs)))",
            "no-marks": "implies(marks == set(), result[0] == pairs and len(result[1]) == 0)",
        },
        # run-time only (bounded): the functional clauses of the unregistered `full` variant (what every produced pair is, and
        # that no part of an input pair is lost), evaluated on generated pair lists
        bounded_ensures={k: v for k, v in {**CONTRACTS[_tgt + "#full"].ensures, **CONTRACTS[_tgt + "#full"].bounded_ensures}.items()
                         if k in ("base-sound", "mark-sound", "non-empty", "base-complete", "mark-complete")},
        canaries={"no-mark-pairs": "len(result[1]) == 0"},
        locals={"basePairs": List(Ref("KPairT")), "markPairs": List(Ref("KPairT"))},
        loops={"for pair in pairs": Loop(index="i", invariants={
            "input": "all(" + _SAME.format(a="pairs[a]") + " and not fresh(pairs[a]) for a in range(len(pairs)))",
        })},
    )


def _split_cases(rng, n):
    glyphs = ["A", "V", "o", "acutecomb", "gravecomb", "dotbelowcomb"]
    out = []
    for k in range(n):
        marks = [] if k % 6 == 0 else rng.sample(glyphs[3:], rng.randint(1, 3)) + ([rng.choice(glyphs[:3])] if k % 7 == 0 else [])

        def side():
            return rng.choice(glyphs) if rng.random() < 0.5 else sorted(rng.sample(glyphs, rng.randint(1, 4)))

        out.append({"marks": marks, "pairs": [[side(), side(), rng.choice([-40, 0, 12.5, 7])] for _ in range(rng.randint(0, 5))]})
    return out


def _split_build(d):
    from ufo2ft.featureWriters.kernFeatureWriter import KernFeatureWriter, KerningPair

    def side(x):
        return tuple(x) if isinstance(x, list) else x

    class CopyablePair(KerningPair):
        """KerningPair (frozen, hand-written __slots__) cannot be copied by the copy module; the run-time interpreter snapshots
        the arguments for old(..): an immutable value is its own copy"""

        __slots__ = ()

        def __deepcopy__(self, memo):
            return self

    return {"self": KernFeatureWriter(), "pairs": [CopyablePair(side(a), side(b), v) for a, b, v in d["pairs"]], "marks": set(d["marks"])}


CONTRACTS[f"{_KP_MOD}:KernFeatureWriter._splitBaseAndMarkPairs"].runtime = Runtime(_split_cases, _split_build, call=lambda fn, a: fn(a["self"], a["pairs"], a["marks"]))
CONTRACTS[f"{_KP_MOD}2:split_base_and_mark_pairs"].runtime = Runtime(_split_cases, _split_build, call=lambda fn, a: fn(a["pairs"], a["marks"]))


# =====================================================================================================
# _makePairPosRule / make_pairpos_rule for a pair of ANY kind (one contract: `firstIsClass ^ secondIsClass` on the real
# properties, sides typed str | tuple[str, ...]).  (First wave: four variants per pair kind with constant kind bits.)

_IS1, _IS2 = "isinstance(pair.side1, tuple)", "isinstance(pair.side2, tuple)"
for _tgt, _self in ((f"{_KP_MOD}:KernFeatureWriter._makePairPosRule", {"self": Ref("KernWriter")}), (f"{_KP_MOD}2:make_pairpos_rule", {})):
    contract(
        _tgt,
        name="any",
        props=["C05"],
        params={**_self, "pair": Ref("KPairT"), "side1Classes": Dict(SIDE_T, Ref("GlyphClassDef")), "side2Classes": Dict(SIDE_T, Ref("GlyphClassDef")), "rtl": BOOL},
        returns=Ref("PairPosStatement"),
        # every class side has a glyph class definition (makeAllGlyphClassDefinitions registers one for each class side of each
        # pair before the rules are made); the code indexes the maps (KeyError otherwise)
        requires=[f"implies({_IS1}, pair.side1 in side1Classes)", f"implies({_IS2}, pair.side2 in side2Classes)"],
        ensures={
            # glyph-class and class-glyph rules are enumerated; glyph-glyph and class-class are not
            "enumerated": f"result.enumerated == ({_IS1} != {_IS2})",
            "advance": "result.valuerecord1 is not None and result.valuerecord1.xAdvance == pair.value",
            "placement": "result.valuerecord1.xPlacement == (pair.value if rtl else None)",
            "no-y": "result.valuerecord1.yPlacement == (0 if rtl else None) and result.valuerecord1.yAdvance == (0 if rtl else None)",
            "second-untouched": "result.valuerecord2 is None",
            "first-class": f"implies({_IS1}, result.glyphs1.kind == 'class' and result.glyphs1.glyphclass == side1Classes[pair.side1])",
            "first-glyph": f"implies(not {_IS1}, result.glyphs1.kind == 'name' and result.glyphs1.glyph == pair.side1)",
            "second-class": f"implies({_IS2}, result.glyphs2.kind == 'class' and result.glyphs2.glyphclass == side2Classes[pair.side2])",
            "second-glyph": f"implies(not {_IS2}, result.glyphs2.kind == 'name' and result.glyphs2.glyph == pair.side2)",
        },
        canaries={"never-placed": "result.valuerecord1.xPlacement is None", "never-enumerated": "not result.enumerated"},
    )


def _rule_any_cases(rng, n):
    return [{"kind": k, "rtl": r, "value": v} for k in _KINDS for r in (False, True) for v in (-50, 0, 12.5)][:n]


CONTRACTS[f"{_KP_MOD}:KernFeatureWriter._makePairPosRule#any"].runtime = Runtime(
    _rule_any_cases, _rule_build, call=lambda fn, a: fn(a["self"], a["pair"], a["side1Classes"], a["side2Classes"], a["rtl"]))
CONTRACTS[f"{_KP_MOD}2:make_pairpos_rule#any"].runtime = Runtime(
    _rule_any_cases, _rule_build, call=lambda fn, a: fn(a["pair"], a["side1Classes"], a["side2Classes"], a["rtl"]))


# ---- the glyphs of a pair's sides (properties firstGlyphs / secondGlyphs / glyphs) ------------------------------------------
for _prop, _side in (("firstGlyphs", "side1"), ("secondGlyphs", "side2")):
    contract(
        f"{_KP_MOD}:KerningPair.{_prop}",
        name="KPairT",
        props=["C05"],
        params={"self": Ref("KPairT")},
        returns=TupleOf(STR),
        ensures={
            "class": f"implies(isinstance(self.{_side}, tuple), result == self.{_side})",
            "glyph": f"implies(not isinstance(self.{_side}, tuple), len(result) == 1 and result[0] == self.{_side})",
        },
        canaries={"always-one": "len(result) == 1"},
        runtime=Runtime(_lt_cases, lambda d: {"self": _lt_build(d)["self"]}, call=lambda fn, a: fn.fget(a["self"])),
    )
contract(
    f"{_KP_MOD}:KerningPair.glyphs",
    name="KPairT",
    props=["C05"],
    params={"self": Ref("KPairT")},
    returns=TupleOf(STR),
    ensures={"concat": "list(result) == list(self.firstGlyphs) + list(self.secondGlyphs)"},
    canaries={"only-first": "list(result) == list(self.firstGlyphs)"},
    runtime=Runtime(_lt_cases, lambda d: {"self": _lt_build(d)["self"]}, call=lambda fn, a: fn.fget(a["self"])),
)
