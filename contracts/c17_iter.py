"""C17 — the generator helpers of featureWriters/ast.py under contract: iterFeatureBlocks, findFeatureTags."""
import z3

from pyvc import ty as T
from pyvc.api import BOOL, CLASSES, CONTRACTS, INT, STR, Const, Dict, List, Loop, Opt, Ref, Runtime, Set, Tuple, cls, contract
from pyvc.core import Val, lift

from . import c17
from . import c17_model as M
from .c17_model import FEAFILE, NODE, NS

_G = {"ast": M.fea_shim(), "isinstance": M.ISINSTANCE}
_OK = "({x}.kind == 'FeatureBlock' and (tag is None or {x}.name == tag))"

contract(
    "ufo2ft.featureWriters.ast:iterFeatureBlocks",
    props=["C17"],
    params={"feaFile": Ref(FEAFILE), "tag": Opt(STR)},
    returns=List(Ref(NODE)),
    globals=_G,
    ensures={
        "only-top-level-feature-blocks": f"all({_OK.format(x='x')} and any(feaFile.statements[j] == x for j in range(len(feaFile.statements))) for x in result)",
        "all-of-them": f"all(implies({_OK.format(x='s')}, s in result) for s in feaFile.statements)",
    },
    canaries={"nothing": "len(result) == 0"},
    loops={"for statement in feaFile.statements": Loop(index="i", seq="FS", invariants={
        "sound": f"all({_OK.format(x='x')} and any(FS[j] == x for j in range(i)) for x in __yield__)",
        "complete": f"all(implies({_OK.format(x='FS[j]')}, FS[j] in __yield__) for j in range(i))",
    })},
    merge_branches=False,
)

contract(
    "ufo2ft.featureWriters.ast:findFeatureTags",
    props=["C17"],
    params={"feaFile": Ref(FEAFILE)},
    returns=Set(STR),
    globals=_G,
    ensures={
        # exactly the tags of the top-level feature blocks: {s.name | s in feaFile.statements, s is a FeatureBlock}
        "only-tags-of-top-level-feature-blocks": "all(any(s.kind == 'FeatureBlock' and s.name == t for s in feaFile.statements) for t in result)",
        "all-tags": "all(implies(s.kind == 'FeatureBlock', s.name in result) for s in feaFile.statements)",
    },
    canaries={"empty": "all(s.name not in result for s in feaFile.statements)"},
)


# ---- run-time side ---------------------------------------------------------------------------------------------------


def _iter_cases(rng, n):
    out = []
    for d in c17._fea_cases(rng, n):
        out.append({"fea": d["fea"], "tag": rng.choice([None, None, "kern", "dist", "liga", "mark"])})
    return out


CONTRACTS["ufo2ft.featureWriters.ast:iterFeatureBlocks"].runtime = Runtime(
    _iter_cases, lambda d: {"feaFile": c17.parse_fea(d["fea"]), "tag": d["tag"]}, call=lambda fn, a: list(fn(a["feaFile"], a["tag"])))
CONTRACTS["ufo2ft.featureWriters.ast:findFeatureTags"].runtime = Runtime(
    _iter_cases, lambda d: {"feaFile": c17.parse_fea(d["fea"])}, call=lambda fn, a: fn(a["feaFile"]))
