"""C19, second wave round 2 — Instantiator._generate_instance_info: the font info of an instance.

Deductive (real AST of Lib/ufo2ft/instantiator.py:572-637; the loop over UFO_INFO_ATTRIBUTES_TO_COPY_TO_INSTANCES is unrolled by the engine):
  * the interpolated info numbers are the (rounded iff round_geometry) content of the info master at a master location and the (rounded) model
    blend elsewhere (same statement as for glyphs, Variator.instance_at)
  * every attribute of UFO_INFO_ATTRIBUTES_TO_COPY_TO_INSTANCES is copied from the default source's info
  * family / style / PostScript / style-map names: the instance descriptor's when given, else the copied / default source's (styleName) / untouched
  * OS/2 weight class, width class and italic angle: the interpolated value when the masters have one, otherwise — iff the designspace has the
    wght / wdth / slnt axis — weight_class_from_wght_value / width_class_from_wdth_value / italic_angle_from_slnt_value of the USER-space value
    (axis.map_backward of the design location); otherwise left unset
  * nothing of the Instantiator is written
"""
import z3

from pyvc import ty as T
from pyvc.api import BOOL, CLASSES, CONTRACTS, INT, REAL, STR, Const, Dict, List, Loop, Map, Opaque, Opt, Ref, Runtime, Set, Tuple, TRUSTED, cls, contract, specfn, trusted
from pyvc.core import PYOBJ, Unsupported, Val, fresh, fresh_name, lift

from ufo2ft.instantiator import UFO_INFO_ATTRIBUTES_TO_COPY_TO_INSTANCES as _COPIED

from . import c19, c19b
from .c19 import KIND_INFO, MDATA, api_specfn, clampf, math_snapshot, wdth_class_real  # noqa: F401
from .c19b import LOCDICT, maybe_rounded  # noqa: F401

INFOVAL = Opaque("InfoValue")
_NAME_ATTRS = ("familyName", "styleName", "postscriptFontName", "styleMapFamilyName", "styleMapStyleName")
_COPY = sorted(_COPIED)
_OS2 = {"openTypeOS2WeightClass": Opt(INT), "openTypeOS2WidthClass": Opt(INT), "italicAngle": Opt(REAL)}

cls(
    "UfoInfo",
    fields={**{a: Opt(INFOVAL) for a in _COPY if a not in _NAME_ATTRS}, **{a: Opt(STR) for a in _NAME_ATTRS}, **_OS2, "interpolated": MDATA},
    views={"interpolated": lambda i: _info_numbers(i)},
    notes="font.info (ufoLib2 / defcon Info: every attribute exists, None when unset): the attributes that _generate_instance_info copies (abstract "
    "values), the five name attributes (strings), the three OS/2-related numbers, and `interpolated` = all the numbers that MathInfo.extractInfo "
    "writes, as ONE abstract value",
)


def _info_numbers(info):
    import fontMath

    return math_snapshot(fontMath.MathInfo(info))


# ---- MathInfo: the three attributes the method inspects, extractInfo ------------------------------------------------------------------
@specfn(Opt(INT), opaque=True, data=MDATA)
def info_weight_class(data):
    """openTypeOS2WeightClass of a MathInfo with this content (None when the masters do not set it)"""
    return _snap_attr(data, "openTypeOS2WeightClass")


@specfn(Opt(INT), opaque=True, data=MDATA)
def info_width_class(data):
    return _snap_attr(data, "openTypeOS2WidthClass")


@specfn(Opt(REAL), opaque=True, data=MDATA)
def info_italic_angle(data):
    return _snap_attr(data, "italicAngle")


def _snap_extracted(data, name):
    """the value MathInfo.extractInfo writes for the attribute: the attribute passed through fontMath's formatter (weight / width class: rounded and
    clamped to an int), None when the attribute is None"""
    from fontMath.mathInfo import _infoAttrs

    v = _snap_attr(data, name)
    fmt = _infoAttrs[name][0]
    return fmt(v) if (v is not None and fmt is not None) else v


@specfn(Opt(INT), opaque=True, data=MDATA)
def info_weight_class_extracted(data):
    return _snap_extracted(data, "openTypeOS2WeightClass")


@specfn(Opt(INT), opaque=True, data=MDATA)
def info_width_class_extracted(data):
    return _snap_extracted(data, "openTypeOS2WidthClass")


@specfn(Opt(REAL), opaque=True, data=MDATA)
def info_italic_angle_extracted(data):
    return _snap_extracted(data, "italicAngle")


def _snap_attr(data, name):
    live = getattr(data, "live", None)
    if live is None:
        raise ValueError("info snapshot without its object")
    return getattr(live, name, None)


_orig_round = c19b._round_snapshot


def _round_snapshot(d):
    if d[0] == "info":
        return c19.info_snapshot(d.live.round())
    return _orig_round(d)


c19b._round_snapshot = _round_snapshot


def _mo_attr(fn_name, ty):
    def view(ex, st, self):
        f = ex.spec_decl(api_specfn(fn_name))
        return Val(ty, f(lift(ex.read_field(st, self, "data"))))

    return view


CLASSES["MathObj"].derived.update({
    "openTypeOS2WeightClass": _mo_attr("info_weight_class", Opt(INT)),
    "openTypeOS2WidthClass": _mo_attr("info_width_class", Opt(INT)),
    "italicAngle": _mo_attr("info_italic_angle", Opt(REAL)),
})


def _mo_extract_info(ex, st, self, args, kwargs, node):
    """MathInfo.extractInfo(info): every number the MathInfo carries is written to `info` (here: `interpolated` as one value, and the three
    attributes the caller inspects, None included); nothing else of `info` is touched"""
    (info,) = args
    kind = z3.Select(ex.field_array(st, "MathObj", "kind"), lift(self))
    ex.safety(st, kind == KIND_INFO, "AttributeError", node)
    data = ex.read_field(st, self, "data")
    ex.write_field(st, info, "interpolated", data, node)
    # the value written is the attribute passed through fontMath's formatter (an int for the two classes); it is None exactly when the attribute is
    for a, fn in (("openTypeOS2WeightClass", "info_weight_class_extracted"), ("openTypeOS2WidthClass", "info_width_class_extracted"), ("italicAngle", "info_italic_angle_extracted")):
        raw = ex.getattr(self, a, st, node)
        ext = Val(_OS2[a], ex.spec_decl(api_specfn(fn))(lift(data)))
        so = _OS2[a].sort()
        st.assume(so.is_nil(lift(ext)) == so.is_nil(lift(raw)))
        ex.write_field(st, info, a, ext, node)
    return Val.const(None)


_mo_extract_info.modifies = ["UfoInfo.interpolated"] + ["UfoInfo." + a for a in _OS2]
CLASSES["MathObj"].methods["extractInfo"] = _mo_extract_info

# copy.deepcopy of an attribute VALUE (strings, numbers, lists of plain data): an equal value (values have no identity in the logic)
_dc = TRUSTED["copy.deepcopy"].model


def _deepcopy_any(ex, st, args, kwargs, node):
    (x,) = args
    if isinstance(x.ty, T.Ref) or (isinstance(x.ty, T.Opt) and isinstance(x.ty.inner, T.Ref)):
        return _dc(ex, st, args, kwargs, node)
    return x


TRUSTED["copy.deepcopy"].model = _deepcopy_any

# ---- axes, instance descriptor, font -------------------------------------------------------------------------------------------------
@specfn(REAL, opaque=True, axis=Ref("AxisDesc"), v=REAL)
def axis_user_value(axis, v):
    """axis.map_backward(v): the user-space value of a design-space value (designspaceLib; piecewise linear through the axis map)"""
    from pyvc.rt import unwrap

    return unwrap(axis).map_backward(v)


def _axis_map_backward(ex, st, self, args, kwargs, node):
    f = ex.spec_decl(api_specfn("axis_user_value"))
    return Val(REAL, f(lift(self), lift(args[0], REAL)))


cls("AxisDesc", fields={"name": STR, "tag": STR}, methods={"map_backward": _axis_map_backward}, notes="designspaceLib.AxisDescriptor: name, tag, map_backward (assumed)")
cls(
    "InstanceDesc",
    fields={"familyName": Opt(STR), "styleName": Opt(STR), "postScriptFontName": Opt(STR), "styleMapFamilyName": Opt(STR), "styleMapStyleName": Opt(STR)},
    notes="designspaceLib.InstanceDescriptor: the five name attributes (assumed attribute bag)",
)
cls("InfoFont", fields={"info": Ref("UfoInfo")}, notes="the instance font: font.info")
# (info_mutator / copy_info are Optional in the dataclass; this method asserts both are set, and its only caller checks info_mutator first)
CLASSES["Instantiator"].fields.update({"info_mutator": Ref("Variator"), "copy_info": Ref("UfoInfo"), "special_axes": Dict(STR, Ref("AxisDesc"))})

_IM = "self.info_mutator"
_KEYOF = "lockey(location_normalized.pairs)"
_INST_DATA = (
    f"({_IM}.location_to_master[{_KEYOF}].data if {_KEYOF} in {_IM}.location_to_master"
    f" else vm_interp({_IM}.model, location_normalized.pairs, {_IM}.masters, self.content))"
)
_FINAL = f"maybe_rounded(self.round_geometry, {_INST_DATA})"


def _os2_clause(attr, spec_attr, tag, conv):
    have = f"{spec_attr}({_FINAL})"
    return (
        f"implies({have} is not None, font.info.{attr} == {spec_attr}_extracted({_FINAL}))"
        f" and implies({have} is None and '{tag}' in self.special_axes,"
        f" font.info.{attr} == {conv}(axis_user_value(self.special_axes['{tag}'], location[self.special_axes['{tag}'].name])))"
        f" and implies({have} is None and '{tag}' not in self.special_axes, font.info.{attr} is None)"
    )


@specfn(INT, x=REAL)
def weight_class_of(x):
    """the postcondition of weight_class_from_wght_value, as a function: floor(clamp(x, 1, 1000) + 1/2)"""
    from fontTools.misc.fixedTools import otRound

    return otRound(clampf(x, 1, 1000))


@specfn(INT, x=REAL)
def width_class_of(x):
    from fontTools.misc.fixedTools import otRound

    return otRound(wdth_class_real(clampf(x, 50, 200)))


@specfn(REAL, x=REAL)
def slant_of(x):
    return clampf(x, -90, 90)


contract(
    "ufo2ft.instantiator:Instantiator._generate_instance_info",
    props=["C19"],
    params={"self": Ref("Instantiator"), "instance": Ref("InstanceDesc"), "location_normalized": Ref("Location"), "location": LOCDICT, "font": Ref("InfoFont")},
    requires=[
        f"all(allocated(m) and m.kind == 1 for m in {_IM}.masters) and all(allocated({_IM}.location_to_master[k]) and {_IM}.location_to_master[k].kind == 1 for k in {_IM}.location_to_master)"
        f" and len({_IM}.masters) >= 1",  # built by Variator.from_masters(collect_info_masters(..)): MathInfo objects, the default source's among them
        "all(self.special_axes[t].name in location for t in self.special_axes)",  # `location` = default design location + the instance's: every axis is in it
        "font.info != self.copy_info",
    ],
    ensures={
        # the interpolated numbers: master content at a master location, the model's blend elsewhere; rounded iff round_geometry
        "info-is-master-or-blend": f"font.info.interpolated == {_FINAL}",
        # the non-interpolating attributes come from the default source
        "copied-from-default": " and ".join(f"font.info.{a} == self.copy_info.{a}" for a in _COPY if a != "familyName"),
        # names: the instance descriptor's when given
        "names": "font.info.familyName == (instance.familyName if instance.familyName is not None and len(instance.familyName) > 0 else self.copy_info.familyName)"
        " and font.info.styleName == (instance.styleName if instance.styleName is not None else self.copy_info.styleName)"
        " and font.info.postscriptFontName == (instance.postScriptFontName if instance.postScriptFontName is not None and len(instance.postScriptFontName) > 0 else old(font.info.postscriptFontName))"
        " and font.info.styleMapFamilyName == (instance.styleMapFamilyName if instance.styleMapFamilyName is not None and len(instance.styleMapFamilyName) > 0 else old(font.info.styleMapFamilyName))"
        " and font.info.styleMapStyleName == (instance.styleMapStyleName if instance.styleMapStyleName is not None and len(instance.styleMapStyleName) > 0 else old(font.info.styleMapStyleName))",
        # OS/2 classes and italic angle: interpolated when the masters set them, else from the USER value of the special axis, else unset
        "weight-class": _os2_clause("openTypeOS2WeightClass", "info_weight_class", "wght", "weight_class_of"),
        "width-class": _os2_clause("openTypeOS2WidthClass", "info_width_class", "wdth", "width_class_of"),
        "italic-angle": _os2_clause("italicAngle", "info_italic_angle", "slnt", "slant_of"),
        "masters-unchanged": "self.content == old(self.content)",
    },
    canaries={"weight-from-design-value": "implies('wght' in self.special_axes and info_weight_class(" + _FINAL + ") is None,"
              " font.info.openTypeOS2WeightClass == weight_class_of(location[self.special_axes['wght'].name]))",
              "never-rounds": f"font.info.interpolated == {_INST_DATA}"},
    modifies=["UfoInfo.interpolated"] + ["UfoInfo." + a for a in list(_OS2) + _COPY + [n for n in _NAME_ATTRS if n not in _COPY]],
    globals={**c19._ACCESSORS},
)


# ---- run-time side ---------------------------------------------------------------------------------------------------------------
def _gii_cases(rng, n):
    out = []
    for fam in c19.FAMILIES:
        for k in range(9):
            out.append({
                "family": fam, "loc": k, "round": rng.random() < 0.5,
                "names": {a: rng.choice([None, "", "X " + a]) for a in ("familyName", "styleName", "postScriptFontName", "styleMapFamilyName", "styleMapStyleName")},
                "master_weight": rng.choice([None, None, 350]),  # the masters' own OS/2 weight class (then it is interpolated, not derived from the axis)
            })
    rng.shuffle(out)
    return out[:n]


def _gii_build(d):
    import ufoLib2
    from fontTools import designspaceLib

    from ufo2ft.instantiator import Instantiator

    ds = c19.rt_designspace(d["family"])
    if d["master_weight"] is not None:
        for k, s in enumerate(ds.sources):
            s.font.info.openTypeOS2WeightClass = d["master_weight"] + 100 * k
    inst = Instantiator.from_designspace(ds, round_geometry=d["round"])
    locs = c19b.rt_locations(ds)
    loc = {**inst.default_design_location, **locs[d["loc"] % len(locs)]}
    desc = designspaceLib.InstanceDescriptor()
    for a, v in d["names"].items():
        setattr(desc, a, v)
    return {"self": inst, "instance": desc, "location_normalized": inst.normalize(loc), "location": loc, "font": ufoLib2.Font()}


CONTRACTS["ufo2ft.instantiator:Instantiator._generate_instance_info"].runtime = Runtime(_gii_cases, _gii_build)
